#!/usr/bin/env python3
"""Thorough tier, part 2: the must-fail corpus of one property.

For property Cxx: (a) every seeded change under /verif/seeded whose meta.json says this check catches it, and (b) the
pre-fix version of every defect repaired with a `fix:` commit (the reverse of that commit's non-contract changes) are
applied - one at a time - to a scratch worktree of /repo (never /repo itself), the QUICK check is run against the
worktree, and it must report at least one VIOLATION (for (b): of the obligation named in known_findings.txt).  A
corpus entry that is no longer caught is a TOOL-ERROR (the check lost detection power), not a property verdict.
Results are added to the property's evidence file under coverage.must_fail_corpus.
"""
import json, os, re, shutil, subprocess, sys, tempfile

V = "/verif"

def sh(cmd, cwd="/", env=None, timeout=3600):
    p = subprocess.run(cmd, shell=True, cwd=cwd, env=env, stdout=subprocess.PIPE, stderr=subprocess.STDOUT, text=True, timeout=timeout)
    return p.returncode, p.stdout

def run_on(patch_cmd, prop):
    wt = tempfile.mkdtemp(prefix="stwt.", dir="/tmp"); os.rmdir(wt)
    sc = tempfile.mkdtemp(prefix="stsc.", dir="/tmp")
    try:
        rc, out = sh(f"git -C /repo worktree add -q --detach {wt} HEAD")
        if rc:
            return None, "worktree: " + out
        rc, out = sh(patch_cmd.format(wt=wt))
        if rc:
            return None, "does not apply: " + out.strip()[:200]
        env = dict(os.environ, VERIF_REPO=wt, VERIF_SCRATCH=sc)
        env.pop("VERIF_TIER", None)
        rc, out = sh(f"./check {prop} --no-evidence --timeout 6", cwd=V, env=env)
        viol = re.findall(r"^VIOLATION property=\S+ replay=\S+ obligation=(\S+)(.*)$", out, re.M)
        return viol, ""
    finally:
        sh(f"git -C /repo worktree remove --force {wt}")
        shutil.rmtree(sc, ignore_errors=True); shutil.rmtree(wt, ignore_errors=True)

def main():
    prop = sys.argv[1]
    results, bad = [], 0
    for sid in sorted(os.listdir(V + "/seeded")):
        mp = f"{V}/seeded/{sid}/meta.json"
        if not os.path.exists(mp):
            continue
        meta = json.load(open(mp))
        if prop not in meta.get("caught_by", []):
            continue
        viol, err = run_on("git -C {wt} apply " + f"{V}/seeded/{sid}/patch.diff", prop)
        if viol is None:
            results.append(dict(kind="seeded", id=sid, skipped=err)); continue
        ok = len(viol) > 0
        bad += 0 if ok else 1
        results.append(dict(kind="seeded", id=sid, caught=ok, violations=len(viol), first=[v[0] for v in viol[:2]],
                            failing_input_found=any("no-failing-input-found" not in v[1] for v in viol)))
        print(f"selftest {prop}: seeded {sid}: {'caught' if ok else 'NOT CAUGHT'} ({len(viol)} violations)"); sys.stdout.flush()
    for l in open(V + "/known_findings.txt"):
        m = re.match(r"fixed:\s+property=(\S+)\s+(\S+)\s+obligation=(\S+)", l)
        if not m or m.group(1) != prop:
            continue
        commit, obl = m.group(2), m.group(3)
        cmd = f"git -C /repo show {commit} -- . ':(exclude)*contracts_verif*' | git -C {{wt}} apply -R"
        viol, err = run_on(cmd, prop)
        if viol is None:
            results.append(dict(kind="reverted-fix", commit=commit, skipped=err))
            print(f"selftest {prop}: reverted fix {commit}: skipped ({err})"); continue
        base = re.sub(r"(\.\d+)+$", "", obl)
        named = [v[0] for v in viol if v[0] == obl or v[0].startswith(base)]
        ok = len(viol) > 0
        bad += 0 if ok else 1
        results.append(dict(kind="reverted-fix", commit=commit, obligation=obl, caught=ok, named_obligation_failed=bool(named), violations=len(viol),
                            failing_input_found=any("no-failing-input-found" not in v[1] for v in viol)))
        print(f"selftest {prop}: reverted fix {commit}: {'caught' if ok else 'NOT CAUGHT'} ({len(viol)} violations{', incl. the recorded obligation' if named else ''})"); sys.stdout.flush()
    ev = f"{V}/evidence/{prop}.json"
    if os.path.exists(ev):
        e = json.load(open(ev))
        e.setdefault("coverage", {})["must_fail_corpus"] = results
        json.dump(e, open(ev, "w"), indent=1)
    if bad:
        print(f"TOOL-ERROR selftest: {bad} must-fail corpus entr{'y is' if bad == 1 else 'ies are'} no longer caught by the {prop} check")
        return 3
    print(f"selftest {prop}: {len(results)} corpus entries, all caught" if results else f"selftest {prop}: no corpus entries")
    return 0

sys.exit(main())
