package metrics

// Demonstration for the fix "release the store's search lock on the error returns of Store.Add".
// Copy into /repo/internal/metrics/ (or inject with -overlay) and run:  go test -run TestDemoAddErrorLeavesStoreLocked
// On the tree before commit 03e8e375 the second Add never returns (searchMu is still read-locked by the failed Add).

import (
	"testing"
	"time"
)

func TestDemoAddErrorLeavesStoreLocked(t *testing.T) {
	s := NewStore()
	old := NewMetric("foo", "prog", Counter, Int, "a")
	// an entry whose tuple has the wrong length (LabelValues is an exported field; JSON-loaded stores can contain one)
	old.LabelValues = append(old.LabelValues, &LabelValue{Labels: []string{"x", "y"}})
	if err := s.Add(old); err != nil {
		t.Fatal(err)
	}
	again := NewMetric("foo", "prog", Counter, Int, "a")
	if err := s.Add(again); err == nil {
		t.Fatal("expected an error from the copy loop")
	}
	done := make(chan struct{})
	go func() {
		s.Add(NewMetric("bar", "prog", Counter, Int))
		close(done)
	}()
	select {
	case <-done:
	case <-time.After(2 * time.Second):
		t.Fatal("Store.Add blocked: the failed Add left searchMu read-locked")
	}
}
