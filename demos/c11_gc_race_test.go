// Demonstration for the open findings of C11 (lock discipline): Store.Gc's visitor and Metric.RemoveOldestDatum read
// m.LabelValues without the metric's lock while a program goroutine appends to it under the lock.
// Run: go test -race -overlay <ov.json> -vet=off -run TestC11GcRace ./internal/metrics/   (the race detector reports
// "DATA RACE" and the test fails; without -race the test passes).
package metrics

import (
	"sync"
	"testing"
	"time"

	"github.com/google/mtail/internal/metrics/datum"
)

func TestC11GcRace(t *testing.T) {
	s := NewStore()
	m := NewMetric("foo", "prog", Counter, Int, "k")
	m.Limit = 3
	if err := s.Add(m); err != nil {
		t.Fatal(err)
	}
	var wg sync.WaitGroup
	stop := make(chan struct{})
	wg.Add(1)
	go func() { // what a VM goroutine does for every matching log line
		defer wg.Done()
		for i := 0; ; i++ {
			select {
			case <-stop:
				return
			default:
			}
			d, err := m.GetDatum(string(rune('a' + i%26)))
			if err == nil {
				datum.IncIntBy(d, 1, time.Now())
			}
		}
	}()
	deadline := time.Now().Add(300 * time.Millisecond)
	for time.Now().Before(deadline) { // what the GC loop does
		if err := s.Gc(); err != nil {
			t.Fatal(err)
		}
	}
	close(stop)
	wg.Wait()
}
