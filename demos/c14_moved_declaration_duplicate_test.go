// Demonstration for the open finding  property=C14 obligation=metrics.(*Store).Add#post.unique : reloading a program
// whose declaration merely moved to another line (or changed its value type) leaves the old metric in the store next
// to the new one - two metrics of the same name for the same program, i.e. a duplicated series.
// Run: go test -overlay <ov.json> -vet=off -run TestC14MovedDeclarationDuplicates ./internal/metrics/
package metrics

import "testing"

func TestC14MovedDeclarationDuplicates(t *testing.T) {
	s := NewStore()
	old := NewMetric("foo", "prog.mtail", Counter, Int)
	old.SetSource("prog.mtail:1:9-11")
	if err := s.Add(old); err != nil {
		t.Fatal(err)
	}
	// the same program is reloaded after a comment line was added above the declaration
	moved := NewMetric("foo", "prog.mtail", Counter, Int)
	moved.SetSource("prog.mtail:2:9-11")
	if err := s.Add(moved); err != nil {
		t.Fatal(err)
	}
	n := 0
	for _, m := range s.Metrics["foo"] {
		if m.Program == "prog.mtail" {
			n++
		}
	}
	if n != 1 {
		t.Errorf("store holds %d metrics named foo for program prog.mtail after the reload, want 1 (duplicate series)", n)
	}
}
