// Demonstration of the C22 defect repaired by the "fix: JSON export ..." commit.
// Copy into /repo/internal/exporter/ and run:  go test -vet=off -run TestC22JSONNonFinite ./internal/exporter/
// Before the fix: one gauge holding NaN (e.g. the result of 0.0/0.0 in a program) made /json answer 500 for the whole
// store ("json: unsupported value: NaN"), so no metric of any program was exported in that format.
package exporter

import (
	"context"
	"math"
	"net/http"
	"net/http/httptest"
	"strings"
	"testing"
	"time"

	"github.com/google/mtail/internal/metrics"
	"github.com/google/mtail/internal/metrics/datum"
)

func TestC22JSONNonFinite(t *testing.T) {
	store := metrics.NewStore()
	good := metrics.NewMetric("good", "prog", metrics.Counter, metrics.Int)
	d, _ := good.GetDatum()
	datum.SetInt(d, 7, time.Unix(1, 0))
	bad := metrics.NewMetric("ratio", "prog", metrics.Gauge, metrics.Float)
	d, _ = bad.GetDatum()
	datum.SetFloat(d, math.NaN(), time.Unix(2, 0))
	hist := metrics.NewMetric("h", "prog", metrics.Histogram, metrics.Buckets)
	hist.Buckets = []datum.Range{{Min: 0, Max: 1}, {Min: 1, Max: math.Inf(1)}}
	d, _ = hist.GetDatum()
	datum.SetFloat(d, math.Inf(1), time.Unix(3, 0))
	for _, m := range []*metrics.Metric{good, bad, hist} {
		if err := store.Add(m); err != nil {
			t.Fatal(err)
		}
	}
	ctx, cancel := context.WithCancel(context.Background())
	defer cancel()
	e, err := New(ctx, store)
	if err != nil {
		t.Fatal(err)
	}
	rec := httptest.NewRecorder()
	e.HandleJSON(rec, httptest.NewRequest(http.MethodGet, "/json", nil))
	if rec.Code != 200 {
		t.Fatalf("JSON export of the whole store fails: %d %s", rec.Code, rec.Body.String())
	}
	for _, want := range []string{`"good"`, `"ratio"`, `"NaN"`, `"+Inf"`} {
		if !strings.Contains(rec.Body.String(), want) {
			t.Errorf("JSON export lacks %s:\n%s", want, rec.Body.String())
		}
	}
}
