// Demonstration of the open C11 finding "an increment to a label set created during a reload is lost".
// Copy into /repo/internal/runtime/ and run:  go test -vet=off -run TestC11ReloadNewLabel ./internal/runtime/
// On the current tree it FAILS.  CompileAndRun calls Store.Add for the new version's metrics (which carries the old
// label values over, sharing the datum objects) and only then stops the old VM.  A line the old VM is still working
// on at that moment is replayed here by calling the old VM after CompileAndRun has returned: its increment to a label
// set that did not exist at the hand-over goes into the discarded metric and is never exported.
package runtime

import (
	"context"
	"strings"
	"sync"
	"testing"

	"github.com/google/mtail/internal/logline"
	"github.com/google/mtail/internal/metrics"
	"github.com/google/mtail/internal/metrics/datum"
)

func TestC11ReloadNewLabel(t *testing.T) {
	store := metrics.NewStore()
	lines := make(chan *logline.LogLine)
	var wg sync.WaitGroup
	r, err := New(lines, &wg, "", store)
	if err != nil {
		t.Fatal(err)
	}
	defer func() { close(lines); wg.Wait() }()
	const prog = "counter hits by host\n/^(?P<host>\\w+)/ {\n  hits[$host]++\n}\n"
	if err := r.CompileAndRun("p.mtail", strings.NewReader(prog)); err != nil {
		t.Fatal(err)
	}
	r.handleMu.RLock()
	old := r.handles["p.mtail"].vm
	r.handleMu.RUnlock()
	old.ProcessLogLine(context.Background(), logline.New(context.Background(), "demo", "alpha 1"))
	if err := r.CompileAndRun("p.mtail", strings.NewReader(prog+"# edited\n")); err != nil {
		t.Fatal(err)
	}
	// the lines the old VM was still working on when the new version was registered
	old.ProcessLogLine(context.Background(), logline.New(context.Background(), "demo", "alpha 2")) // existing label set
	old.ProcessLogLine(context.Background(), logline.New(context.Background(), "demo", "beta 1"))  // new label set
	m := store.FindMetricOrNil("hits", "p.mtail")
	if m == nil {
		t.Fatal("hits is not exported")
	}
	got := map[string]int64{}
	for _, lv := range m.LabelValues {
		got[lv.Labels[0]] = datum.GetInt(lv.Value)
	}
	if got["alpha"] != 2 {
		t.Errorf("hits[alpha] = %d, want 2 (existing label set: the datum is shared)", got["alpha"])
	}
	if got["beta"] != 1 {
		t.Errorf("hits[beta] = %d, want 1: the increment the old VM made to a label set created during the reload is lost (export: %v)", got["beta"], got)
	}
}
