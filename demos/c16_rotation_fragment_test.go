// Demonstration for the C16 finding  logstream.(*fileStream).stream$1#site.before.stream : an unterminated fragment at
// the end of a file that is rotated away must be delivered once as its own line (C16); before the fix it was dropped.
// Run: go test -overlay <ov.json> -vet=off -run TestC16RotationFragment ./internal/tailer/logstream/
package logstream_test

import (
	"context"
	"os"
	"path/filepath"
	"sync"
	"testing"

	"github.com/google/mtail/internal/logline"
	"github.com/google/mtail/internal/tailer/logstream"
	"github.com/google/mtail/internal/testutil"
	"github.com/google/mtail/internal/waker"
)

func TestC16RotationFragment(t *testing.T) {
	var wg sync.WaitGroup
	tmpDir := testutil.TestTempDir(t)
	name := filepath.Join(tmpDir, "log")
	f := testutil.TestOpenFile(t, name)
	defer f.Close()

	ctx, cancel := context.WithCancel(context.Background())
	waker, awaken := waker.NewTest(ctx, 1, "stream")
	fs, err := logstream.New(ctx, &wg, waker, name, logstream.OneShotDisabled)
	testutil.FatalIfErr(t, err)

	expected := []*logline.LogLine{
		{Context: context.TODO(), Filename: name, Line: "1"},
		{Context: context.TODO(), Filename: name, Line: "frag"}, // unterminated tail of the rotated-away generation
		{Context: context.TODO(), Filename: name, Line: "2"},
	}
	checkLineDiff := testutil.ExpectLinesReceivedNoDiff(t, expected, fs.Lines())

	awaken(1, 1) // sync to eof
	testutil.WriteString(t, f, "1\nfrag")
	awaken(1, 1)

	testutil.FatalIfErr(t, os.Rename(name, name+".1"))
	f = testutil.TestOpenFile(t, name)
	defer f.Close()

	awaken(1, 1)
	testutil.WriteString(t, f, "2\n")
	awaken(1, 1)

	cancel()
	wg.Wait()
	checkLineDiff()
}
