// Demonstration of the open C04 finding "histogram misuse is accepted and faults in the VM".
// Copy into /repo/internal/runtime/ and run:  go test -vet=off -run TestC04HistogramMisuse ./internal/runtime/
// On the current tree it FAILS (each program is accepted by the compiler and the VM recovers a Go panic on the
// first matching line); it would pass once the checker refuses these uses of a histogram.
package runtime

import (
	"context"
	"strings"
	"testing"

	"github.com/google/mtail/internal/logline"
	"github.com/google/mtail/internal/runtime/compiler"
	"github.com/google/mtail/internal/runtime/vm"
)

func TestC04HistogramMisuse(t *testing.T) {
	progs := map[string]string{
		"increment":     "histogram h buckets 1, 2\n/(\\d+)/ {\n  h++\n}\n",
		"add-assign":    "histogram h by k buckets 1, 2\n/(?P<k>[a-z]+) (\\d+)/ {\n  h[$k] += $2\n}\n",
		"assign string": "histogram h buckets 1, 2\n/(?P<s>[a-z]+)/ {\n  h = $s\n}\n",
		"read":          "histogram h buckets 1, 2\ncounter c\n/(\\d+)/ {\n  h = $1\n  c += h\n}\n",
	}
	cmp, err := compiler.New()
	if err != nil {
		t.Fatal(err)
	}
	for name, prog := range progs {
		obj, err := cmp.Compile("demo", strings.NewReader(prog))
		if err != nil {
			continue // refused at compile time: the property holds for this program
		}
		v := vm.New("demo", obj, false, nil, false, false)
		v.ProcessLogLine(context.Background(), logline.New(context.Background(), "demo", "abc 12"))
		if e := v.RuntimeErrorString(); strings.Contains(e, "panic in thread") {
			t.Errorf("%s: accepted by the compiler, and the VM faults: %s", name, strings.SplitN(e, "\n", 2)[0])
		}
	}
}
