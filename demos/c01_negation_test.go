// Demonstration of the open C01 / C04 finding "logical negation of a comparison".
// Copy into /repo/internal/runtime/ and run:  go test -vet=off -run TestC01Negation ./internal/runtime/
// On the current tree it FAILS: `~($1 > 3)` is accepted by the compiler, and on every matching line the neg instruction
// meets the boolean the comparison pushed, PopInt reports "unexpected int type bool", and neither the block nor its else
// branch runs.  (`!($1 > 3)`, the spelling in docs/Language.md, is refused by the lexer: "Unexpected input: '!'".)
package runtime

import (
	"context"
	"strings"
	"testing"

	"github.com/google/mtail/internal/logline"
	"github.com/google/mtail/internal/metrics/datum"
	"github.com/google/mtail/internal/runtime/compiler"
	"github.com/google/mtail/internal/runtime/vm"
)

func TestC01Negation(t *testing.T) {
	cmp, err := compiler.New()
	if err != nil {
		t.Fatal(err)
	}
	if _, err := cmp.Compile("bang", strings.NewReader("counter yes\n/(\\d+)/ {\n  !($1 > 3) {\n    yes++\n  }\n}\n")); err != nil {
		t.Errorf("`!` (docs/Language.md: unary logical negation) is refused: %v", strings.Join(strings.Fields(err.Error()), " "))
	}
	obj, err := cmp.Compile("tilde", strings.NewReader("counter yes\ncounter no\n/(\\d+)/ {\n  ~($1 > 3) {\n    yes++\n  } else {\n    no++\n  }\n}\n"))
	if err != nil {
		return // refused: no fault at run time
	}
	v := vm.New("tilde", obj, false, nil, false, false)
	v.ProcessLogLine(context.Background(), logline.New(context.Background(), "demo", "1"))
	yes, no := datum.GetInt(obj.Metrics[0].LabelValues[0].Value), datum.GetInt(obj.Metrics[1].LabelValues[0].Value)
	if yes != 1 || no != 0 {
		t.Errorf("~(1 > 3): yes=%d no=%d, want yes=1 no=0; runtime error: %q", yes, no, strings.SplitN(v.RuntimeErrorString(), "\n", 2)[0])
	}
}
