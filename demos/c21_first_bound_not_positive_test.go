// Demonstration for the open finding  property=C21 obligation=codegen.(*codegen).VisitBefore@vardecl#post.hist.first
// (run with: go test -overlay <ov.json> -vet=off -run TestC21FirstBoundNotPositive ./internal/runtime/compiler/codegen/).
// A histogram whose first declared boundary is not positive gets no bucket with that upper bound: the exported
// upper bounds are NOT "exactly the declared boundaries plus +Inf" (C21, last sentence).
package codegen_test

import (
	"math"
	"strings"
	"testing"

	"github.com/google/mtail/internal/runtime/compiler/checker"
	"github.com/google/mtail/internal/runtime/compiler/codegen"
	"github.com/google/mtail/internal/runtime/compiler/parser"
)

func TestC21FirstBoundNotPositive(t *testing.T) {
	for _, tc := range []struct {
		decl string
		want []float64
	}{
		{"histogram h buckets 1, 2, 4\n", []float64{1, 2, 4, math.Inf(1)}},
		{"histogram h buckets 0, 1, 2\n", []float64{0, 1, 2, math.Inf(1)}},
		{"histogram h buckets -1, 0, 1\n", []float64{-1, 0, 1, math.Inf(1)}},
	} {
		prog := tc.decl + "/(\\d+)/ {\n  h = $1\n}\n"
		ast, err := parser.Parse("demo", strings.NewReader(prog))
		if err != nil {
			t.Fatal(err)
		}
		ast, err = checker.Check(ast, 0, 0)
		if err != nil {
			t.Fatal(err)
		}
		obj, err := codegen.CodeGen("demo", ast)
		if err != nil {
			t.Fatal(err)
		}
		var got []float64
		for _, r := range obj.Metrics[0].Buckets {
			got = append(got, r.Max)
		}
		if len(got) != len(tc.want) {
			t.Errorf("%q: exported upper bounds %v, want %v", strings.TrimSpace(tc.decl), got, tc.want)
			continue
		}
		for i := range got {
			if got[i] != tc.want[i] {
				t.Errorf("%q: exported upper bounds %v, want %v", strings.TrimSpace(tc.decl), got, tc.want)
				break
			}
		}
	}
}
