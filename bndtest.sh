#!/bin/sh
# usage: bndtest.sh <patch.diff|-> <bounded-template> : runs a bounded stand-in on a scratch worktree of /repo
export GOFLAGS=-mod=mod GOPROXY=off GOSUMDB=off GOTOOLCHAIN=local
wt=$(mktemp -d /tmp/bndwt.XXXX); rmdir $wt
git -C /repo worktree add -q --detach $wt HEAD || exit 2
[ "$1" != "-" ] && { git -C $wt apply $(realpath $1) || { git -C /repo worktree remove --force $wt; exit 2; }; }
pkg=$(sed -n 's|^// pkg: ||p' /verif/bounded/$2 | head -1)
sc=$(mktemp -d /tmp/bndsc.XXXX)
sed "s#/\*INPUTS\*/#\`{}\`#" /verif/bounded/$2 > $sc/t_test.go
echo "{\"Replace\": {\"$wt/$pkg/zz_govc_bounded_test.go\": \"$sc/t_test.go\"}}" > $sc/ov.json
(cd $wt && go test -v -overlay $sc/ov.json -vet=off -timeout 600s -run "^(TestGovcBounded|TestGovcReplay)$" ./$pkg/ 2>&1 | grep -v "^I0\|^W0\|^E0" | head -${3:-40})
git -C /repo worktree remove --force $wt; rm -rf $sc $wt
