#!/bin/sh
# usage: ./trymut.sh <patch.diff> <prop> [<prop>...]   -- apply a seeded change to /repo, run checks, revert
p="$(realpath "$1")"; shift
if [ -n "$(git -C /repo status --porcelain)" ]; then echo "REFUSING: /repo has uncommitted changes (commit them first)"; exit 4; fi
git -C /repo apply "$p" || { echo "PATCH DOES NOT APPLY: $p"; exit 3; }
for prop in "$@"; do
  ./check "$prop" --no-evidence --timeout 6 2>&1 | grep -E "^VIOLATION|^KNOWN|quick:|TOOL-ERROR|error" | cut -c1-220 | head -8
done
git -C /repo apply -R "$p"
git -C /repo status --porcelain
