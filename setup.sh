#!/bin/sh
# Builds /verif/bin/govc offline from /verif/govc.
set -e
cd "$(dirname "$0")"
export GOFLAGS=-mod=mod GOPROXY=off GOSUMDB=off GOTOOLCHAIN=local CGO_ENABLED=0
mkdir -p bin out evidence
cd govc && go build -o ../bin/govc . 
