#!/bin/sh
# runs every registered check against a scratch worktree of /repo HEAD (so /repo stays free for editing); no evidence is written
cd "$(dirname "$0")"
wt=$(mktemp -d /tmp/allwt.XXXXXX); sc=$(mktemp -d /tmp/allsc.XXXXXX)
git -C /repo worktree add -q --detach "$wt" HEAD || exit 3
for p in ${*:-$(python3 -c "import json;print(' '.join(c['property_id'] for c in json.load(open('MANIFEST.json'))['checks']))")}; do
  VERIF_REPO="$wt" VERIF_SCRATCH="$sc" ./check $p --no-evidence > $sc/log 2>&1
  grep -E "^VIOLATION|^TOOL" $sc/log | head -3 | cut -c1-170
  grep -E "quick:|thorough:" $sc/log | cut -c1-150
done
git -C /repo worktree remove --force "$wt"; rm -rf "$sc"
