#!/bin/sh
# runs every registered check (quick) and prints one summary line each (+ at most 3 violation lines)
cd "$(dirname "$0")"
for p in $(python3 -c "import json;print(' '.join(c['property_id'] for c in json.load(open('MANIFEST.json'))['checks']))"); do
  ./check $p "$@" > /tmp/runall.$$ 2>&1
  grep -E "^VIOLATION|^TOOL" /tmp/runall.$$ | head -3 | cut -c1-170
  grep -E "quick:|thorough:" /tmp/runall.$$ | cut -c1-150
done
rm -f /tmp/runall.$$
