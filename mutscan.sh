#!/bin/sh
# usage: ./mutscan.sh <patch.diff> <prop> [<prop>...]
#   checks a seeded change in a scratch worktree of /repo (so /repo itself stays free), then removes the worktree.
p="$(realpath "$1")"; shift
wt=$(mktemp -d /tmp/mutwt.XXXXXX); sc=$(mktemp -d /tmp/mutsc.XXXXXX)
git -C /repo worktree add -q --detach "$wt" HEAD || exit 3
if ! git -C "$wt" apply "$p"; then echo "PATCH DOES NOT APPLY: $p"; git -C /repo worktree remove --force "$wt"; rm -rf "$sc"; exit 3; fi
for prop in "$@"; do
  VERIF_REPO="$wt" VERIF_SCRATCH="$sc" ./check "$prop" --no-evidence --timeout 6 > "$sc/log" 2>&1
  grep -E "^VIOLATION|^TOOL-ERROR|^load error|^contract error" "$sc/log" | sed "s|$sc||" | cut -c1-200 | head -6
  grep -E "quick:" "$sc/log"
done
git -C /repo worktree remove --force "$wt"; rm -rf "$sc"
