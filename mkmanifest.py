#!/usr/bin/env python3
"""Regenerates /verif/MANIFEST.json from claims.json (claimed checks) + properties.jsonl (not_applicable for the rest)."""
import json, subprocess, os

HERE = os.path.dirname(os.path.abspath(__file__))
props = [json.loads(l) for l in open(os.path.join(HERE, "properties.jsonl"))]
claims = json.load(open(os.path.join(HERE, "claims.json")))
CLAIMED = claims["claimed"]          # id -> {text, note, ref}
import glob
for fn in sorted(glob.glob(os.path.join(HERE, "claims.d", "*.json"))):
    CLAIMED[os.path.basename(fn)[:-5]] = json.load(open(fn))
NA_REASON = claims["not_applicable"]  # id -> reason
DEFAULT_NA = claims["default_not_applicable"]

TECH = "function contracts (//@ comments, build tag verif) on the real Go functions; weakest-precondition VCs generated over go/ssa by govc; discharged by z3 4.8.12 / z3 5.1.0 / cvc5 1.0"

checks, na = [], []
for p in props:
    pid = p["id"]
    if pid in CLAIMED:
        c = CLAIMED[pid]
        checks.append({
            "property_id": pid,
            "quick_cmd": "./check %s" % pid,
            "thorough_cmd": "./check %s --thorough" % pid,
            "evidence_file": "/verif/evidence/%s.json" % pid,
            "replay_cmd_template": "./check --replay {path}",
            "engine": "govc",
            "level_claimed": {"category": "proof", "text": c["text"], "design_ref": c["ref"]},
            "level_note": c["note"],
            "technique": TECH,
        })
    else:
        na.append({"property_id": pid, "reason": NA_REASON.get(pid, DEFAULT_NA)})

try:
    commits = subprocess.check_output(["git", "-C", "/repo", "log", "--format=%H %s"], text=True).splitlines()
    hooks = [c.split()[0] for c in commits if c.split(" ", 1)[1].startswith("verif:")]
except Exception:
    hooks = []

m = {
 "version": 1,
 "setup_cmd": "./setup.sh",
 "hooks": {"guard": "verif", "enable": "go build -tags verif ./...  (the only guarded files are comment-only contracts_verif*.go files read by govc)",
           "baseline_off_cmd": "cd /repo && GOFLAGS=-mod=mod GOPROXY=off GOSUMDB=off go test -vet=off -count=1 -timeout 25m ./...",
           "source_commits": hooks, "add_only": True},
 "engines": [{"name": "govc", "path": "govc", "serves_properties": sorted(CLAIMED),
              "kind_free_text": "self-written deductive verifier for Go: contracts as //@ comments in /repo/internal/**/contracts_verif*.go (+ trusted stdlib contracts in /verif/trusted), VC generation over go/ssa (x/tools v0.29.0), one SMT-LIB query per obligation, portfolio of z3 4.8.12, z3 5.1.0, cvc5 1.0; after the obligations of a property it runs that property's bounded stand-ins (/verif/bounded/<prop>_*.go.tmpl: in-package Go tests run through go test -overlay on the tree under check), which are labelled bounded in the evidence (coverage.bounded_standins) and never counted among the proved obligations (DESIGN 13.8)"}],
 "checks": checks,
 "not_applicable": na,
 "notes": "Properties are decided function by function; see DESIGN.md. known_findings.txt lists defects found and fixed (fix: commits in /repo). seeded/ holds property-breaking changes used to test the checks. bounded/ holds the bounded stand-ins (DESIGN 13.8) for C02 C03 C04 C05 C06 C13 C14 C15 C16 C22 C24 C25.",
}
json.dump(m, open(os.path.join(HERE, "MANIFEST.json"), "w"), indent=1, ensure_ascii=False)
print("claimed:", sorted(CLAIMED), "hooks:", len(hooks))
