#!/usr/bin/env python3
"""Regenerates /verif/MANIFEST.json from the table below (claimed checks) + properties.jsonl (not_applicable for the rest)."""
import json, subprocess, os

HERE = os.path.dirname(os.path.abspath(__file__))
props = [json.loads(l) for l in open(os.path.join(HERE, "properties.jsonl"))]

TECH = "function contracts (//@ comments, build tag verif) on the real Go functions; weakest-precondition VCs generated over go/ssa by govc; discharged by z3 4.8.12 / z3 5.1.0 / cvc5 1.0"

# id -> (level text, level note, design ref)
CLAIMED = {
 "C08": ("proof: (1) buildLabelValueKey is proved to return key(labels), the spec function obtained from the assumed contract of strings.ReplaceAll applied to the literals in the code; (2) key is proved injective on tuples of equal length (lemma keyN_inj, by induction, with unique decodability of the escaping as lemma escC_sep) and congruent (keyN_cong); (3) FindLabelValueOrNil/GetDatum/RemoveDatum/ExpireDatum/AppendLabelValue are proved to address the index only through that key and to leave every other key's entry untouched (whole-view postconditions + modifies frames). All inputs, all lengths, no bound.",
         "assumes the contract of strings.ReplaceAll for one-byte patterns and of strings.Builder; strings are byte lists; integers mathematical; the ∃-direction of the index invariant (every index entry is in the slice) is not part of wf, so 'absent' is stated over the index, not the slice",
         "DESIGN §8 C08"),
 "C09": ("proof: representation invariant wf(m) (slice and index agree, entries distinct, stored keys consistent) is established by newMetric/NewMetric and preserved by AppendLabelValue, GetDatum, RemoveDatum, ExpireDatum; each has positional whole-view postconditions (wrong length: error and nothing changes; present: that entry's value; absent in the index: appended at the end with a fresh datum; delete: the entry is removed and the order of the others kept; expire: only that entry's expiry changes) and a modifies frame. Loop invariants, no bound.",
         "JSON marshalling and the datum value types' own Set/Get are outside (C07/C21); enumeration (EmitLabelSets) is covered under C12/C13; T9: wf is assumed for metrics arriving from outside the verified functions",
         "DESIGN §8 C09"),
 "C21": ("proof: Buckets.Observe is proved against the property's sentence: with wfB(d) (last bound +Inf, bounds strictly increasing, bucket counts sum to Count) it increments exactly the first bucket whose upper bound admits v, or the last one when none does (NaN; IEEE comparison in SMT FloatingPoint), leaves all other buckets and all bounds alone, adds 1 to Count and v to Sum, and re-establishes wfB (sum lemma sumC_store by induction). MakeBuckets is proved to copy the declared bounds in order, add exactly one +Inf bucket iff none is declared, and start with zero counts.",
         "float addition is SMT fp.add RNE; the initial establishment of the sum/ordering part of wfB by MakeBuckets for sorted input is not proved (quantifier alternation too slow to claim) and the codegen half (declared boundaries -> Range list) is not yet under contract",
         "DESIGN §8 C21"),
 "C12": ("proof: each of the four export visitors passed to Store.Range (Collect$1, writeSocketMetrics$1, HandleVarz$1, HandleGraphite$1) is proved, on every return path including the error returns, to leave every lock that existed on entry in its entry state (lock.balanced), to have no label-set producer goroutine outstanding (handoff.drained: the channel of every `go EmitLabelSets` spawned in the visitor has been read to its end) and not to release the metric's read lock while the producer still needs it (handoff.lock-cover); EmitLabelSets is proved to send exactly one LabelSet per live tuple, in order, with that tuple's datum, and then close the channel.",
         "the hand-off rule of DESIGN §3.4 (producer effects applied at the go statement) is trusted; writers, http and context calls are opaque; an export that never ends (blocked writer) and cancellation during a write are outside; Store.Range's own lock balance is covered with C11/C14",
         "DESIGN §8 C12"),
}

NA_REASON = {
 "C19": "termination plus exactly-once delivery of a network of goroutines and channels under all schedules; function contracts express neither liveness nor interleavings (DESIGN §9)",
 "C20": "ordering of effects between two VM goroutines across a reload is a happens-before property over schedules; no function's pre/postcondition states it (DESIGN §9)",
 "C23": "parse(unparse(ast)) ≅ ast: parse is goyacc's table-driven automaton whose meaning is the grammar file, outside any contract language over Go functions (DESIGN §9)",
}

checks, na = [], []
for p in props:
    pid = p["id"]
    if pid in CLAIMED:
        text, note, ref = CLAIMED[pid]
        checks.append({
            "property_id": pid,
            "quick_cmd": "./check %s" % pid,
            "thorough_cmd": "./check %s --thorough" % pid,
            "evidence_file": "/verif/evidence/%s.json" % pid,
            "replay_cmd_template": "./check --replay {path}",
            "engine": "govc",
            "level_claimed": {"category": "proof", "text": text, "design_ref": ref},
            "level_note": note,
            "technique": TECH,
        })
    else:
        na.append({"property_id": pid, "reason": NA_REASON.get(pid, "contracts for this property are not built yet (work in progress; see DESIGN §8 for the plan)")})

try:
    commits = subprocess.check_output(["git", "-C", "/repo", "log", "--format=%H %s"], text=True).splitlines()
    hooks = [c.split()[0] for c in commits if " verif: " in " " + c.split(" ", 1)[1] + " " or c.split(" ", 1)[1].startswith("verif:")]
except Exception:
    hooks = []

m = {
 "version": 1,
 "setup_cmd": "./setup.sh",
 "hooks": {"guard": "verif", "enable": "go build -tags verif ./...  (the only guarded files are comment-only contracts_verif.go files read by govc)",
           "baseline_off_cmd": "cd /repo && GOFLAGS=-mod=mod GOPROXY=off GOSUMDB=off go test -vet=off -count=1 -timeout 25m ./...",
           "source_commits": hooks, "add_only": True},
 "engines": [{"name": "govc", "path": "govc", "serves_properties": sorted(CLAIMED),
              "kind_free_text": "self-written deductive verifier for Go: contracts as //@ comments in /repo/internal/**/contracts_verif.go (+ trusted stdlib contracts in /verif/trusted), VC generation over go/ssa (x/tools v0.29.0), one SMT-LIB query per obligation, portfolio of z3 4.8.12, z3 5.1.0, cvc5 1.0"}],
 "checks": checks,
 "not_applicable": na,
 "notes": "Properties are decided function by function; see DESIGN.md. known_findings.txt lists defects found and fixed (fix: commits in /repo). seeded/ holds property-breaking changes used to test the checks.",
}
json.dump(m, open(os.path.join(HERE, "MANIFEST.json"), "w"), indent=1, ensure_ascii=False)
print("claimed:", sorted(CLAIMED), "hooks:", len(hooks))
