#!/usr/bin/env python3
"""Confirms seeded property-breaking changes in a scratch worktree of /repo and files them under /verif/seeded/<id>/.

For every change: (1) the demonstration passes on the unchanged tree; (2) the patch applies, the tree builds; (3) the
demonstration fails with the patch; (4) the existing tests of ./internal/... give the same verdicts as on the unchanged
tree (the four dhcpd subtests of internal/mtail fail in both: their input file is emptied in this sandbox).
Writes seeded/<id>/patch.diff, demo_test.go, meta.json.  Usage: seedconfirm.py [id ...]   (default: all)
"""
import json, os, re, shutil, subprocess, sys, tempfile

V = "/verif"
INC = V + "/seeded_incoming"
ENV = dict(os.environ, GOFLAGS="-mod=mod", GOPROXY="off", GOSUMDB="off", GOTOOLCHAIN="local")

def sh(cmd, cwd, timeout=1500):
    p = subprocess.run(cmd, shell=True, cwd=cwd, env=ENV, stdout=subprocess.PIPE, stderr=subprocess.STDOUT, text=True, timeout=timeout)
    return p.returncode, p.stdout

def entries():
    out = []
    for d in sorted(os.listdir(INC)):
        m = re.match(r"(r\d+)_(C\d+)$", d)
        prop = m.group(2) if m else d
        for n in (1, 2):
            sid = f"{prop}-{m.group(1)}-{n}" if m else f"{prop}-{n}"
            patch = f"{INC}/{d}/change{n}.diff"
            if os.path.exists(f"{V}/seeded/{sid}/patch.diff"):
                patch = f"{V}/seeded/{sid}/patch.diff"  # rebased onto the current tree
            if not os.path.exists(patch):
                continue
            out.append(dict(id=sid, prop=prop, patch=patch, demo=f"{INC}/{d}/demo{n}_test.go", notes=f"{INC}/{d}/notes{n}.md", n=n))
    return out

def demo_target(e):
    txt = open(e["notes"]).read()
    m = re.search(r"demo%d_test\.go\s+(internal/[\w/]+?)/?(?:zz_\w+\.go)?[\s`;&]" % e["n"], txt)
    pkg = m.group(1) if m else None
    src = open(e["demo"]).read()
    tests = re.findall(r"^func (Test\w+)\(", src, re.M)
    if not pkg:
        pm = re.search(r"^package (\w+)", src, re.M).group(1)
        base = pm[:-5] if pm.endswith("_test") else pm
        cands = [d for d, _, fs in os.walk("/repo/internal") if os.path.basename(d) == base]
        if len(cands) == 1:
            pkg = os.path.relpath(cands[0], "/repo")
        else:
            raise SystemExit(f"{e['id']}: cannot find demo package in notes (package {pm})")
    return pkg.rstrip("/"), tests

def suite(wt):
    rc, out = sh("go test -vet=off -count=1 -timeout 20m ./internal/... 2>&1 | grep -E '^(ok|FAIL|---|panic)' | grep -v '^--- PASS' | sort", wt)
    lines = [re.sub(r"\s+\d+\.\d+s$|\s+\(cached\)$|\(\d+\.\d+s\)", "", l) for l in out.splitlines()]
    return sorted(set(lines))

def main():
    want = set(sys.argv[1:])
    wt = tempfile.mkdtemp(prefix="seedwt.", dir="/tmp")
    os.rmdir(wt)
    rc, out = sh(f"git -C /repo worktree add -q --detach {wt} HEAD", "/")
    if rc:
        raise SystemExit(out)
    try:
        base_suite = None
        for e in entries():
            if want and e["id"] not in want:
                continue
            meta = dict(id=e["id"], property=e["prop"], source="fresh sub-agent given only the property text and a scratch worktree")
            if "-r0-" in e["id"]:
                meta["source"] = "written by the author of the checks as a canary for a contract (round 0; not a sub-agent)"
            try:
                pkg, tests = demo_target(e)
            except SystemExit as x:
                print(x); continue
            run = "|".join(tests)
            dst = f"{wt}/{pkg}/zz_seed_demo_test.go"
            sh("git checkout -q -- . && git clean -fdq", wt)
            shutil.copy(e["demo"], dst)
            rc0, out0 = sh(f"go test -vet=off -count=1 -timeout 300s -run '^({run})$' ./{pkg}/", wt)
            os.remove(dst)
            rc, out = sh(f"git apply {e['patch']}", wt)
            if rc:
                print(f"{e['id']}: PATCH DOES NOT APPLY"); continue
            rcb, outb = sh("go build ./... ", wt)
            shutil.copy(e["demo"], dst)
            rc1, out1 = sh(f"go test -vet=off -count=1 -timeout 300s -run '^({run})$' ./{pkg}/", wt)
            os.remove(dst)
            meta.update(demo_package=pkg, demo_tests=tests, builds=(rcb == 0), demo_passes_unchanged=(rc0 == 0), demo_fails_with_change=(rc1 != 0))
            ok = rcb == 0 and rc0 == 0 and rc1 != 0
            if ok and os.environ.get("SEED_SUITE", "1") == "1":
                if base_suite is None:
                    sh("git checkout -q -- . && git clean -fdq", wt)
                    base_suite = suite(wt)
                    sh(f"git apply {e['patch']}", wt)
                s = suite(wt)
                meta["existing_tests_same_as_unchanged"] = (s == base_suite)
                if s != base_suite:
                    meta["existing_tests_diff"] = sorted(set(s) ^ set(base_suite))[:10]
                ok = ok and s == base_suite
            meta["confirmed"] = ok
            notes = open(e["notes"]).read()
            m = re.search(r"[Nn]eeds(?: to manifest)?\s*:?\s*(.+)", notes)
            meta["needs_to_manifest"] = (m.group(1).strip()[:600] if m else "")
            m = re.search(r"^#\s*(.+)$", notes, re.M)
            meta["what"] = m.group(1).strip() if m else ""
            meta["ran"] = [f"git apply patch.diff; go build ./...", f"go test -vet=off -count=1 -run '^({run})$' ./{pkg}/  (demo copied in as zz_seed_demo_test.go): passes unchanged, fails with the change",
                           "go test -vet=off -count=1 ./internal/...  (verdict lines compared with the unchanged tree)"]
            d = f"{V}/seeded/{e['id']}"
            os.makedirs(d, exist_ok=True)
            if os.path.abspath(e["patch"]) != os.path.abspath(d + "/patch.diff"):
                shutil.copy(e["patch"], d + "/patch.diff")
            shutil.copy(e["demo"], d + "/demo_test.go")
            shutil.copy(e["notes"], d + "/notes.md")
            old = {}
            if os.path.exists(d + "/meta.json"):
                old = json.load(open(d + "/meta.json"))
            for k in ("caught_by", "missed_by", "detection_note"):
                if k in old:
                    meta[k] = old[k]
            json.dump(meta, open(d + "/meta.json", "w"), indent=1)
            print(f"{e['id']}: confirmed={ok} builds={rcb==0} demo_unchanged_pass={rc0==0} demo_changed_fail={rc1!=0} suite_same={meta.get('existing_tests_same_as_unchanged')}")
            sys.stdout.flush()
    finally:
        sh(f"git -C /repo worktree remove --force {wt}", "/")
        shutil.rmtree(wt, ignore_errors=True)

main()
