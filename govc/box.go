package main

import "strings"

func boxEnc(sort string) string { return smtQuote("enc." + strings.Trim(sort, "|")) }
func boxDec(sort string) string { return smtQuote("dec." + strings.Trim(sort, "|")) }
