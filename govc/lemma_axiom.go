package main

import "fmt"

// axiomForm returns the formula under which a lemma may be assumed once proved. Induction over an Int variable n
// proves the statement for n >= 0 only, so that guard is added to the assumed form.
func (lm *Lemma) axiomForm() string {
	if lm.Induct == "" || lm.Axiom {
		return lm.Formula
	}
	f, err := parseSx(lm.Formula)
	if err != nil || !f.isL || len(f.list) != 3 || f.list[0].atom != "forall" {
		return lm.Formula
	}
	isInt := false
	for _, b := range f.list[1].list {
		if b.isL && len(b.list) == 2 && b.list[0].atom == lm.Induct && b.list[1].String() == "Int" {
			isInt = true
		}
	}
	if !isInt {
		return lm.Formula
	}
	body := f.list[2]
	guard := fmt.Sprintf("(>= %s 0)", lm.Induct)
	// keep a pattern annotation outermost: (! body :pattern ...) -> (! (=> guard body) :pattern ...)
	if body.isL && len(body.list) >= 2 && body.list[0].atom == "!" {
		inner := body.list[1].String()
		rest := ""
		for _, k := range body.list[2:] {
			rest += " " + k.String()
		}
		return fmt.Sprintf("(forall %s (! (=> %s %s)%s))", f.list[1].String(), guard, inner, rest)
	}
	return fmt.Sprintf("(forall %s (=> %s %s))", f.list[1].String(), guard, body.String())
}
