package main

import (
	"go/token"
	"go/types"
	"sort"
	"strings"
	"sync"

	"golang.org/x/tools/go/ssa"
	"golang.org/x/tools/go/ssa/ssautil"
)

// May-write analysis (DESIGN §3.5, "computed frames").
//
// A call to a function in /repo that is neither inlined nor given a `modifies` clause used to havoc every heap
// component.  That is sound but makes callers lose facts about data the callee cannot possibly touch (a local
// directory listing across a call that loads a program, say).  mayWrite(F) is a flow-insensitive over-approximation
// of the heap components (in the encoder's own naming: H.<struct>.<field>, E.<elem>, M.<k>.<v>.*, C.<type>, G.<var>,
// CH.*, EV.*) that F or anything it can call may write.  Anything the analysis does not understand makes the set
// "everything", which is the old behaviour.  The call graph is: static calls, closures created in the function,
// calls through function values (every address-taken /repo function of the same signature), interface calls
// (contracts, closed interfaces, class-hierarchy analysis over /repo types; an interface declared outside /repo
// may have implementations the analysis cannot see: everything reachable from the arguments).
// Goroutines started with `go` are not followed: the encoder does not execute them either (DESIGN §3.3).

type writeSet struct {
	all   bool
	comps map[string]bool // exact names, or prefixes ending in '*'
}

func newWS() *writeSet { return &writeSet{comps: map[string]bool{}} }

func (w *writeSet) add(c string) bool {
	if w.all || w.comps[c] {
		return false
	}
	w.comps[c] = true
	return true
}

func (w *writeSet) union(o *writeSet) bool {
	if w.all {
		return false
	}
	if o.all {
		w.all = true
		return true
	}
	ch := false
	for c := range o.comps {
		if !w.comps[c] {
			w.comps[c] = true
			ch = true
		}
	}
	return ch
}

func (w *writeSet) matches(name string) bool {
	if w.all || w.comps[name] {
		return true
	}
	for c := range w.comps {
		if strings.HasSuffix(c, "*") && strings.HasPrefix(name, c[:len(c)-1]) {
			return true
		}
	}
	return false
}

func (w *writeSet) String() string {
	if w.all {
		return "everything"
	}
	var ks []string
	for k := range w.comps {
		ks = append(ks, k)
	}
	sort.Strings(ks)
	return strings.Join(ks, " ")
}

type mwAnalysis struct {
	mu        sync.Mutex
	done      bool
	prog      *Program
	ct        *Contracts
	st        *SortTable
	funcs     []*ssa.Function
	direct    map[*ssa.Function]*writeSet
	edges     map[*ssa.Function][]*ssa.Function
	result    map[*ssa.Function]*writeSet
	addrTaken map[string][]*ssa.Function // signature string -> repo functions used as values
	extTaken  map[string]bool            // signature string -> some non-repo function is used as a value
	impls     map[string][]*ssa.Function // "iface|method" -> repo implementations (CHA)
	namedT    []types.Type
}

var mwGlobal = &mwAnalysis{}

// mayWrite returns the write set of fn (everything when fn has no body or is outside /repo).
func (e *Encoder) mayWrite(fn *ssa.Function) *writeSet {
	a := mwGlobal
	a.mu.Lock()
	defer a.mu.Unlock()
	if !a.done {
		a.run(e.prog, e.ct)
	}
	if w, ok := a.result[fn]; ok {
		return w
	}
	return &writeSet{all: true}
}

func (a *mwAnalysis) run(p *Program, ct *Contracts) {
	a.done = true
	a.prog, a.ct, a.st = p, ct, newSortTable()
	a.direct = map[*ssa.Function]*writeSet{}
	a.edges = map[*ssa.Function][]*ssa.Function{}
	a.result = map[*ssa.Function]*writeSet{}
	a.addrTaken = map[string][]*ssa.Function{}
	a.extTaken = map[string]bool{}
	a.impls = map[string][]*ssa.Function{}
	all := ssautil.AllFunctions(p.SSA)
	for fn := range all {
		if len(fn.Blocks) > 0 && (inRepo(fn) || fn.Synthetic != "" && synthInRepo(fn)) {
			a.funcs = append(a.funcs, fn)
		}
	}
	sort.Slice(a.funcs, func(i, j int) bool { return a.funcs[i].String() < a.funcs[j].String() })
	// named types of /repo (for class-hierarchy analysis)
	for _, pkg := range p.SSA.AllPackages() {
		if pkg.Pkg == nil || !strings.HasPrefix(pkg.Pkg.Path(), "github.com/google/mtail") {
			continue
		}
		sc := pkg.Pkg.Scope()
		for _, n := range sc.Names() {
			if tn, ok := sc.Lookup(n).(*types.TypeName); ok && !tn.IsAlias() {
				if _, isI := tn.Type().Underlying().(*types.Interface); !isI {
					a.namedT = append(a.namedT, tn.Type())
				}
			}
		}
	}
	// address-taken functions
	for _, fn := range a.funcs {
		for _, b := range fn.Blocks {
			for _, ins := range b.Instrs {
				var callee ssa.Value
				if c, ok := ins.(ssa.CallInstruction); ok && !c.Common().IsInvoke() {
					callee = c.Common().Value
				}
				for _, op := range ins.Operands(nil) {
					if op == nil || *op == nil {
						continue
					}
					v := *op
					if mc, ok := v.(*ssa.MakeClosure); ok {
						v = mc.Fn
					}
					f2, ok := v.(*ssa.Function)
					if !ok || (*op == callee) {
						continue
					}
					a.noteTaken(f2)
				}
				if mc, ok := ins.(*ssa.MakeClosure); ok {
					if f2, ok := mc.Fn.(*ssa.Function); ok {
						// a closure that is only called directly / deferred in its creator is not "taken"; be simple: taken
						a.noteTaken(f2)
					}
				}
			}
		}
	}
	for _, fn := range a.funcs {
		a.scan(fn)
	}
	// fixpoint
	for _, fn := range a.funcs {
		w := newWS()
		w.union(a.direct[fn])
		a.result[fn] = w
	}
	for changed := true; changed; {
		changed = false
		for _, fn := range a.funcs {
			w := a.result[fn]
			for _, g := range a.edges[fn] {
				gw, ok := a.result[g]
				if !ok {
					if !w.all {
						w.all = true
						changed = true
					}
					continue
				}
				if w.union(gw) {
					changed = true
				}
			}
		}
	}
}

func synthInRepo(fn *ssa.Function) bool {
	return fn.Pkg != nil && strings.HasPrefix(fn.Pkg.Pkg.Path(), "github.com/google/mtail")
}

func (a *mwAnalysis) noteTaken(f2 *ssa.Function) {
	key := sigKey(f2.Signature)
	if len(f2.Blocks) > 0 && (inRepo(f2) || synthInRepo(f2)) {
		for _, x := range a.addrTaken[key] {
			if x == f2 {
				return
			}
		}
		a.addrTaken[key] = append(a.addrTaken[key], f2)
	} else {
		a.extTaken[key] = true
	}
}

func sigKey(s *types.Signature) string {
	return types.NewSignatureType(nil, nil, nil, s.Params(), s.Results(), s.Variadic()).String()
}

func (a *mwAnalysis) ts(t types.Type) string { return a.st.typeStr(t) }

func (a *mwAnalysis) mapComps(w *writeSet, t types.Type) {
	mt, ok := t.Underlying().(*types.Map)
	if !ok {
		w.all = true
		return
	}
	w.add("M." + a.ts(mt.Key()) + "." + a.ts(mt.Elem()) + ".*")
}

// pointee: components written by a store through a pointer value of type *T whose provenance is unknown.
func (a *mwAnalysis) pointee(w *writeSet, t types.Type) {
	switch u := t.Underlying().(type) {
	case *types.Struct:
		_ = u
		if isTimeTime(t) {
			w.add("C." + a.ts(t))
			return
		}
		w.add("H." + a.ts(t) + ".*")
	case *types.Array:
		w.add("ARRAY")
	default:
		w.add("C." + a.ts(t))
	}
}

// addr: components written by a store to the address value x.
func (a *mwAnalysis) addr(w *writeSet, x ssa.Value) {
	switch v := x.(type) {
	case *ssa.FieldAddr:
		// find the field closest to the base pointer
		cur := v
		for {
			if up, ok := cur.X.(*ssa.FieldAddr); ok {
				cur = up
				continue
			}
			break
		}
		switch base := cur.X.(type) {
		case *ssa.IndexAddr:
			a.addr(w, base)
			return
		case *ssa.Global:
			a.addr(w, base)
			return
		}
		pt, ok := cur.X.Type().Underlying().(*types.Pointer)
		if !ok {
			w.all = true
			return
		}
		st, ok := pt.Elem().Underlying().(*types.Struct)
		if !ok {
			w.all = true
			return
		}
		if isTimeTime(pt.Elem()) {
			w.add("C." + a.ts(pt.Elem()))
			return
		}
		w.add("H." + a.ts(pt.Elem()) + "." + st.Field(cur.Field).Name())
		// a lock embedded in the object is tracked under LW./LR. (never havocked by a call); nothing to add
	case *ssa.IndexAddr:
		switch u := v.X.Type().Underlying().(type) {
		case *types.Slice:
			w.add("E." + a.ts(u.Elem()))
		case *types.Pointer: // pointer to array
			switch b := v.X.(type) {
			case *ssa.FieldAddr, *ssa.Global, *ssa.Alloc:
				a.addr(w, b)
			default:
				w.add("ARRAY")
			}
		default:
			w.all = true
		}
	case *ssa.Global:
		w.add("G." + shortPkg(v.Pkg.Pkg.Path()) + "." + v.Name())
	default:
		pt, ok := x.Type().Underlying().(*types.Pointer)
		if !ok {
			w.all = true
			return
		}
		a.pointee(w, pt.Elem())
	}
}

// reach: everything an external callee could write given an argument of static type t.
func (a *mwAnalysis) reach(w *writeSet, t types.Type, seen map[string]bool) {
	if w.all {
		return
	}
	key := a.ts(t)
	if seen[key] {
		return
	}
	seen[key] = true
	switch u := t.Underlying().(type) {
	case *types.Basic:
	case *types.Pointer:
		a.pointee(w, u.Elem())
		a.reach(w, u.Elem(), seen)
	case *types.Struct:
		for i := 0; i < u.NumFields(); i++ {
			a.reach(w, u.Field(i).Type(), seen)
		}
	case *types.Slice:
		w.add("E." + a.ts(u.Elem()))
		a.reach(w, u.Elem(), seen)
	case *types.Array:
		w.add("ARRAY")
		a.reach(w, u.Elem(), seen)
	case *types.Map:
		a.mapComps(w, t)
		a.reach(w, u.Key(), seen)
		a.reach(w, u.Elem(), seen)
	case *types.Chan:
		w.add("CH.*")
	default: // interfaces, functions, type parameters: anything
		w.all = true
	}
}

func (a *mwAnalysis) argReach(w *writeSet, args []ssa.Value) {
	seen := map[string]bool{}
	for _, x := range args {
		if mi, ok := x.(*ssa.MakeInterface); ok {
			a.reach(w, mi.X.Type(), seen)
			continue
		}
		if c, ok := x.(*ssa.Const); ok && c.Value == nil {
			continue // nil
		}
		if sl, ok := x.(*ssa.Slice); ok { // variadic ...interface{} built from a local array of MakeInterface values
			if al, ok := sl.X.(*ssa.Alloc); ok {
				if a.varargsReach(w, al, seen) {
					continue
				}
			}
		}
		a.reach(w, x.Type(), seen)
	}
}

// varargsReach handles the `new [n]interface{}` arrays the compiler builds for variadic calls: the interface values
// stored into them are all visible in the function.
func (a *mwAnalysis) varargsReach(w *writeSet, al *ssa.Alloc, seen map[string]bool) bool {
	refs := al.Referrers()
	if refs == nil {
		return false
	}
	var stored []ssa.Value
	for _, r := range *refs {
		switch x := r.(type) {
		case *ssa.IndexAddr:
			irefs := x.Referrers()
			if irefs == nil {
				return false
			}
			for _, ir := range *irefs {
				st, ok := ir.(*ssa.Store)
				if !ok || st.Addr != x {
					return false
				}
				stored = append(stored, st.Val)
			}
		case *ssa.Slice, *ssa.DebugRef:
		default:
			return false
		}
	}
	for _, v := range stored {
		if mi, ok := v.(*ssa.MakeInterface); ok {
			a.reach(w, mi.X.Type(), seen)
		} else if c, ok := v.(*ssa.Const); ok && c.Value == nil {
		} else {
			a.reach(w, v.Type(), seen)
		}
	}
	return true
}

// contractFrame translates a contract's frame into components; ok == false when it cannot.
func (a *mwAnalysis) contractFrame(w *writeSet, fc *FuncContract, sig *types.Signature, recvT types.Type) bool {
	if fc.Pure {
		return true
	}
	if !fc.HasMod {
		return false
	}
	// (an `assumeframe` clause is used like any other: that is what callers of the function see)
	paramT := func(name string) types.Type {
		if name == "recv" && recvT != nil {
			return recvT
		}
		if r := sig.Recv(); r != nil && r.Name() == name {
			return r.Type()
		}
		for i := 0; i < sig.Params().Len(); i++ {
			if sig.Params().At(i).Name() == name {
				return sig.Params().At(i).Type()
			}
		}
		return nil
	}
	var typeOf func(n *Node) types.Type
	typeOf = func(n *Node) types.Type {
		switch n.Op {
		case "name":
			return paramT(n.Name)
		case "field":
			bt := typeOf(n.Kids[0])
			if bt == nil {
				return nil
			}
			_, s := derefStruct(bt)
			if s == nil {
				return nil
			}
			for i := 0; i < s.NumFields(); i++ {
				if s.Field(i).Name() == n.Name {
					return s.Field(i).Type()
				}
			}
		case "index":
			bt := typeOf(n.Kids[0])
			if bt == nil {
				return nil
			}
			switch u := bt.Underlying().(type) {
			case *types.Slice:
				return u.Elem()
			case *types.Map:
				return u.Elem()
			}
		}
		return nil
	}
	tmp := newWS()
	for _, m := range fc.Modifies {
		switch m.Op {
		case "field":
			bt := typeOf(m.Kids[0])
			if bt == nil {
				return false
			}
			if g := a.ct.Ghost[namedPathShort(bt)+"."+m.Name]; g != nil {
				tmp.add("H." + g.Struct + "." + g.Name)
				continue
			}
			sT, s := derefStruct(bt)
			if s == nil {
				return false
			}
			tmp.add("H." + a.ts(sT) + "." + m.Name)
		case "allelems":
			bt := typeOf(m.Kids[0])
			if bt == nil {
				return false
			}
			switch u := bt.Underlying().(type) {
			case *types.Slice:
				tmp.add("E." + a.ts(u.Elem()))
			case *types.Map:
				a.mapComps(tmp, bt)
			default:
				return false
			}
		case "index":
			bt := typeOf(m.Kids[0])
			if bt == nil {
				return false
			}
			if u, ok := bt.Underlying().(*types.Slice); ok {
				tmp.add("E." + a.ts(u.Elem()))
			} else {
				return false
			}
		case "call":
			switch m.Name {
			case "comp":
				if len(m.Kids) == 1 && m.Kids[0].Op == "str" {
					tmp.add(m.Kids[0].Lit)
				} else {
					return false
				}
			case "ev":
				tmp.add("EV.int")
			case "evmap":
				tmp.add("EV.map")
			case "chan":
				tmp.add("CH.*")
			case "all":
				bt := typeOf(m.Kids[0])
				if bt == nil {
					return false
				}
				sT, s := derefStruct(bt)
				if s == nil {
					return false
				}
				tmp.add("H." + a.ts(sT) + ".*")
			default:
				return false
			}
		default:
			return false
		}
	}
	if tmp.all {
		return false
	}
	for _, h := range fc.Havoc {
		tmp.add(h)
	}
	w.union(tmp)
	return true
}

func (a *mwAnalysis) edge(fn, g *ssa.Function) {
	for _, x := range a.edges[fn] {
		if x == g {
			return
		}
	}
	a.edges[fn] = append(a.edges[fn], g)
}

var mwPureStd = []string{"sync.", "atomic.Load", "time.", "math.", "glog.", "context.", "sha256.", "hash.", "os.Getpid", "errors.Is", "errors.As", "errors.Unwrap", "runtime.", "unicode.", "utf8.", "sort.Search", "url.", "net.", "http.", "prometheus.", "expfmt."}

// staticCall accounts for a call whose callee is the known function g.
func (a *mwAnalysis) staticCall(w *writeSet, fn, g *ssa.Function, args []ssa.Value) {
	name := qualName(g)
	switch name {
	case "atomic.StoreInt64", "atomic.StoreUint64", "atomic.StoreInt32", "atomic.StoreUint32",
		"atomic.AddInt64", "atomic.AddUint64", "atomic.AddInt32", "atomic.AddUint32":
		if len(args) > 0 {
			a.addr(w, args[0])
		}
		return
	case "expvar.(*Int).Add", "expvar.(*Int).Set":
		w.add("EV.int")
		return
	case "expvar.(*Map).Add":
		w.add("EV.map")
		return
	}
	if fc := a.ct.Funcs[name]; fc != nil && !fc.Inline {
		if a.contractFrame(w, fc, g.Signature, nil) {
			return
		}
	}
	if len(g.Blocks) > 0 && (inRepo(g) || synthInRepo(g)) {
		a.edge(fn, g)
		return
	}
	if isEffectFree(name) {
		return
	}
	for _, p := range mwPureStd {
		if strings.HasPrefix(name, p) {
			// these packages keep their state behind their own types; what they may write is what is reachable
			// from pointer arguments of their own types, which mtail's heap model does not contain
			a.ownTypeArgs(w, g, args)
			return
		}
	}
	a.argReach(w, args)
}

// ownTypeArgs: a library call may write through arguments; arguments whose type belongs to the library's own
// package are ignored (their fields are not modelled), the others are followed.
func (a *mwAnalysis) ownTypeArgs(w *writeSet, g *ssa.Function, args []ssa.Value) {
	var rest []ssa.Value
	for _, x := range args {
		t := x.Type()
		if p, ok := t.Underlying().(*types.Pointer); ok {
			t = p.Elem()
		}
		if n, ok := types.Unalias(t).(*types.Named); ok && n.Obj().Pkg() != nil && g.Pkg != nil && n.Obj().Pkg() == g.Pkg.Pkg {
			continue
		}
		rest = append(rest, x)
	}
	a.argReach(w, rest)
}

func (a *mwAnalysis) chaImpls(it types.Type, m *types.Func) []*ssa.Function {
	iface, ok := it.Underlying().(*types.Interface)
	if !ok {
		return nil
	}
	key := a.ts(it) + "|" + m.Name()
	if r, ok := a.impls[key]; ok {
		return r
	}
	var out []*ssa.Function
	for _, t := range a.namedT {
		for _, cand := range []types.Type{t, types.NewPointer(t)} {
			if !types.Implements(cand, iface) {
				continue
			}
			sel := a.prog.SSA.MethodSets.MethodSet(cand).Lookup(m.Pkg(), m.Name())
			if sel == nil {
				continue
			}
			if f := a.prog.SSA.MethodValue(sel); f != nil {
				dup := false
				for _, x := range out {
					if x == f {
						dup = true
					}
				}
				if !dup {
					out = append(out, f)
				}
			}
		}
	}
	a.impls[key] = out
	return out
}

func (a *mwAnalysis) call(w *writeSet, fn *ssa.Function, c *ssa.CallCommon) {
	if c.IsInvoke() {
		it := c.Value.Type()
		itName := namedPathShort(it)
		key := itName + "." + c.Method.Name()
		if key == "error.Error" {
			return
		}
		if fc := a.ct.Funcs[key]; fc != nil {
			if a.contractFrame(w, fc, c.Signature(), it) {
				return
			}
		}
		declaredInRepo := false
		if n, ok := types.Unalias(it).(*types.Named); ok && n.Obj().Pkg() != nil && strings.HasPrefix(n.Obj().Pkg().Path(), "github.com/google/mtail") {
			declaredInRepo = true
		}
		for _, g := range a.chaImpls(it, c.Method) {
			a.staticCall(w, fn, g, nil)
		}
		if !declaredInRepo {
			// implementations outside /repo: whatever is reachable from the arguments (the receiver is theirs)
			a.argReach(w, c.Args)
		}
		return
	}
	switch v := c.Value.(type) {
	case *ssa.Builtin:
		switch v.Name() {
		case "delete":
			a.mapComps(w, c.Args[0].Type())
		case "append":
			if u, ok := c.Args[0].Type().Underlying().(*types.Slice); ok {
				w.add("E." + a.ts(u.Elem()))
			} else {
				w.all = true
			}
		case "copy":
			if u, ok := c.Args[0].Type().Underlying().(*types.Slice); ok {
				w.add("E." + a.ts(u.Elem()))
			} else {
				w.all = true
			}
		case "close":
			w.add("CH.*")
		case "len", "cap", "print", "println", "panic", "recover", "min", "max", "real", "imag", "complex", "ssa:wrapnilchk":
		default:
			w.all = true
		}
	case *ssa.Function:
		a.staticCall(w, fn, v, c.Args)
	case *ssa.MakeClosure:
		if g, ok := v.Fn.(*ssa.Function); ok {
			a.staticCall(w, fn, g, c.Args)
		} else {
			w.all = true
		}
	default:
		// call through a function value: every address-taken /repo function of that signature
		key := sigKey(c.Signature())
		if a.extTaken[key] {
			w.all = true
			return
		}
		cands := a.addrTaken[key]
		if len(cands) == 0 {
			w.all = true // a function value from outside (callback registered by a library, ...)
			return
		}
		for _, g := range cands {
			a.edge(fn, g)
		}
	}
}

func (a *mwAnalysis) scan(fn *ssa.Function) {
	w := newWS()
	a.direct[fn] = w
	for _, b := range fn.Blocks {
		for _, ins := range b.Instrs {
			switch i := ins.(type) {
			case *ssa.Store:
				if al, ok := i.Addr.(*ssa.Alloc); ok {
					a.pointee(w, al.Type().(*types.Pointer).Elem())
				} else {
					a.addr(w, i.Addr)
				}
			case *ssa.MapUpdate:
				a.mapComps(w, i.Map.Type())
			case *ssa.Send:
				w.add("CH.*")
			case *ssa.Select:
				w.add("CH.*")
			case *ssa.UnOp:
				if i.Op == token.ARROW {
					w.add("CH.*")
				}
			case *ssa.Go:
				w.add("CH.*") // hand-off bookkeeping; the spawned body itself is not executed by the encoder
			case *ssa.Call:
				a.call(w, fn, &i.Call)
			case *ssa.Defer:
				a.call(w, fn, &i.Call)
			case *ssa.Next:
				// iterator state is ITER.*, never havocked by calls
			}
		}
	}
}
