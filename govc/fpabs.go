package main

import (
	"regexp"
	"strings"
)

// The "fpabs" query variant: Float64 as an uninterpreted sort with an axiomatised order instead of the SMT
// FloatingPoint theory.  Bit-blasting 64-bit IEEE comparisons under quantifiers costs the solvers 5-30 s on goals that
// only need "<= is a total preorder on the non-NaN values, +oo is its top, NaN compares with nothing".  Every axiom
// below is a true statement about IEEE-754 binary64 as SMT-LIB defines it, and every replaced operator is defined
// from the abstract `uleq`/`uisNaN`/`uisPos` exactly as the theory defines it from fp.leq/fp.isNaN/sign; so the
// abstraction only forgets facts: `unsat` on the variant implies `unsat` on the original.  `sat`/`unknown` on it mean
// nothing and are ignored by the portfolio.  The variant is only produced for queries whose floating-point
// vocabulary is exactly the one handled here.

const fpabsPrelude = `(declare-sort F64 0)
(declare-const fp!pinf F64)
(declare-const fp!ninf F64)
(declare-const fp!pzero F64)
(declare-const fp!nzero F64)
(declare-const fp!nan F64)
(declare-fun uleq (F64 F64) Bool)
(declare-fun uisNaN (F64) Bool)
(declare-fun uisPos (F64) Bool)
(define-fun ult ((a F64) (b F64)) Bool (and (uleq a b) (not (uleq b a))))
(define-fun ugt ((a F64) (b F64)) Bool (and (uleq b a) (not (uleq a b))))
(define-fun ugeq ((a F64) (b F64)) Bool (uleq b a))
(define-fun ueq ((a F64) (b F64)) Bool (and (uleq a b) (uleq b a)))
(define-fun uisInf ((a F64)) Bool (or (= a fp!pinf) (= a fp!ninf)))
(define-fun uisPositive ((a F64)) Bool (and (not (uisNaN a)) (uisPos a)))
(define-fun uisNegative ((a F64)) Bool (and (not (uisNaN a)) (not (uisPos a))))
(assert (forall ((a F64) (b F64)) (! (=> (uleq a b) (and (not (uisNaN a)) (not (uisNaN b)))) :pattern ((uleq a b)))))
(assert (forall ((a F64) (b F64)) (! (=> (and (not (uisNaN a)) (not (uisNaN b))) (or (uleq a b) (uleq b a))) :pattern ((uleq a b)))))
(assert (forall ((a F64) (b F64) (c F64)) (! (=> (and (uleq a b) (uleq b c)) (uleq a c)) :pattern ((uleq a b) (uleq b c)))))
(assert (forall ((a F64)) (! (=> (not (uisNaN a)) (and (uleq a a) (uleq a fp!pinf) (uleq fp!ninf a))) :pattern ((uisNaN a)))))
(assert (forall ((a F64)) (! (=> (uleq fp!pinf a) (= a fp!pinf)) :pattern ((uleq fp!pinf a)))))
(assert (forall ((a F64)) (! (=> (uleq a fp!ninf) (= a fp!ninf)) :pattern ((uleq a fp!ninf)))))
(assert (forall ((a F64)) (! (=> (and (not (uisNaN a)) (uisPos a)) (uleq fp!pzero a)) :pattern ((uisPos a)))))
(assert (forall ((a F64)) (! (=> (and (not (uisNaN a)) (not (uisPos a))) (uleq a fp!nzero)) :pattern ((uisPos a)))))
(assert (forall ((a F64)) (! (=> (and (uleq a fp!pzero) (uleq fp!pzero a)) (or (= a fp!pzero) (= a fp!nzero))) :pattern ((uleq a fp!pzero) (uleq fp!pzero a)))))
(assert (and (uisNaN fp!nan) (not (uisNaN fp!pinf)) (not (uisNaN fp!ninf)) (not (uisNaN fp!pzero)) (not (uisNaN fp!nzero))))
(assert (forall ((a F64)) (! (=> (uisNaN a) (= a fp!nan)) :pattern ((uisNaN a)))))
(assert (and (uisPos fp!pinf) (not (uisPos fp!ninf)) (uisPos fp!pzero) (not (uisPos fp!nzero))))
(assert (distinct fp!pinf fp!ninf fp!pzero fp!nzero fp!nan))
(assert (and (uleq fp!pzero fp!nzero) (uleq fp!nzero fp!pzero) (not (uleq fp!pinf fp!pzero)) (not (uleq fp!pzero fp!ninf))))`

var fpabsOps = []struct{ from, to string }{
	{"(fp.isInfinite ", "(uisInf "},
	{"(fp.isNaN ", "(uisNaN "},
	{"(fp.isPositive ", "(uisPositive "},
	{"(fp.isNegative ", "(uisNegative "},
	{"(fp.leq ", "(uleq "},
	{"(fp.geq ", "(ugeq "},
	{"(fp.lt ", "(ult "},
	{"(fp.gt ", "(ugt "},
	{"(fp.eq ", "(ueq "},
	{"(_ +oo 11 53)", "fp!pinf"},
	{"(_ -oo 11 53)", "fp!ninf"},
	{"(_ +zero 11 53)", "fp!pzero"},
	{"(_ -zero 11 53)", "fp!nzero"},
	{"(_ NaN 11 53)", "fp!nan"},
}

var fpLeftoverRe = regexp.MustCompile(`fp\.[a-zA-Z]|to_fp|\(fp #|FloatingPoint|RoundingMode|\bRN[EA]\b|\bRT[ZPN]\b`)

const fpSortDef = "(define-sort F64 () (_ FloatingPoint 11 53))"

// fpabsVariant returns the abstracted query, or "" when the query has no floating point or uses vocabulary outside
// the handled set.
func fpabsVariant(q string) string {
	if !strings.Contains(q, "(fp.") || !strings.Contains(q, fpSortDef) {
		return ""
	}
	s := strings.Replace(q, fpSortDef, fpabsPrelude, 1)
	for _, r := range fpabsOps {
		s = strings.ReplaceAll(s, r.from, r.to)
	}
	if fpLeftoverRe.MatchString(s) {
		return ""
	}
	return s
}
