package main

import (
	"fmt"
	"go/ast"
	"go/token"
	"go/types"
	"sort"
	"strings"

	"golang.org/x/tools/go/ssa"
)

// FuncResult is what verifying one function (or one case of it) produced.
type FuncResult struct {
	Name   string
	Obls   []*Obligation
	Notes  []string
	Err    string
	Blocks int
	Instrs int
	Hash   string
	Lines  int
}

func newEncoder(p *Program, ct *Contracts, fn *ssa.Function, fc *FuncContract, name string) *Encoder {
	return &Encoder{prog: p, ct: ct, sorts: newSortTable(), compSort: map[string]string{}, compDecl: map[string]bool{},
		noteSet: map[string]bool{}, oblCount: map[string]int{}, fn: fn, fc: fc, name: name, axiomsIn: map[string]bool{}}
}

// verifyFunction generates the obligations of one function under contract (optionally restricted to one case).
func verifyFunction(p *Program, ct *Contracts, fc *FuncContract, cc *CaseContract) (res *FuncResult) {
	name := fc.Name
	if cc != nil {
		name = fc.Name + "@" + cc.Name
	}
	res = &FuncResult{Name: name}
	fn := p.Funcs[fc.Name]
	if fn == nil {
		res.Err = "contract-target-missing: function " + fc.Name + " not found in the current tree"
		return
	}
	res.Blocks = len(fn.Blocks)
	for _, b := range fn.Blocks {
		res.Instrs += len(b.Instrs)
	}
	e := newEncoder(p, ct, fn, fc, name)
	e.caseC = cc
	defer func() {
		if r := recover(); r != nil {
			if ee, ok := r.(encErr); ok {
				res.Err = ee.msg
				res.Obls = nil
				return
			}
			panic(r)
		}
	}()
	f := e.newFrame(fn, 0)
	f.top = true
	f.fc = fc
	e.guardsOn = curProp == guardProp
	st := &State{heap: map[string]string{}}
	pc := "true"
	// parameters
	for i, prm := range fn.Params {
		v := f.freshOf("p."+prm.Name(), prm.Type())
		f.vals[prm] = v
		f.params[prm.Name()] = v
		e.assumeAllocated(st, pc, v)
		if i == 0 && fn.Signature.Recv() != nil {
			if _, isPtr := prm.Type().Underlying().(*types.Pointer); isPtr {
				e.assume(pc, not(eq(v.T, "0")))
				e.note("pointer receivers are assumed non-nil")
			}
		}
	}
	for _, fv := range fn.FreeVars {
		v := f.freshOf("fv."+fv.Name(), fv.Type())
		f.vals[fv] = v
		e.assume(pc, not(eq(v.T, "0")))
		e.assumeAllocated(st, pc, v)
	}
	e.assume("true", not(sel(e.comp(st, "alloc", arrSort(sBool)), "0"))) // nil is never an allocated object
	f.describeInputs(st)
	{
		rp := append([]*Clause{}, fc.Replay...)
		if cc != nil {
			rp = append(rp, cc.Replay...)
		}
		renv := f.contractEnv(st, st)
		for _, cl := range rp {
			v := renv.eval(cl.Expr)
			kind := map[string]string{sInt: "int", sBool: "bool", sStr: "str", sF64: "f64"}[v.Sort]
			if kind != "" && v.Loc == nil {
				e.addInput(cl.Label, v.T, kind)
			}
		}
	}
	for _, un := range fc.Unshared {
		if v := f.params[un]; v != nil {
			e.unshared = append(e.unshared, v.T)
			e.assume("true", sel(e.unshComp(), v.T))
			e.note("lock discipline: parameter " + un + " of " + fc.Name + " is declared unshared (no other goroutine can reach it yet)")
		} else {
			e.fail("unshared: no parameter %s", un)
		}
	}
	for _, u := range fc.Uses {
		e.useLemma(u)
	}
	if cc != nil {
		for _, u := range cc.Uses {
			e.useLemma(u)
		}
	}
	env := f.contractEnv(st, st)
	reqs := fc.Requires
	if cc != nil {
		e.assume(pc, env.evalBool(cc.Guard))
		reqs = append(append([]*Clause{}, reqs...), cc.Requires...)
	}
	for _, cl := range reqs {
		e.assume(pc, env.evalBool(cl.Expr))
	}
	for _, nr := range fc.NoRead {
		for _, t := range env.targets(nr) {
			if t.kind == "loc" && t.loc.Comp != "" {
				e.noRead = append(e.noRead, noReadLoc{t.loc.Comp, t.loc.Idx[0], nr.String()})
			}
		}
	}
	// vacuity: the preconditions must be satisfiable (obligation that must NOT be provable)
	o := e.oblige("vacuity", "requires-sat", pc, "false", "preconditions are satisfiable (this goal must fail)", fn.Pos(), nil)
	o.MustFail = true
	if cc != nil {
		f.pruneForCase(cc)
	}
	f.run(pc, st)
	// exits
	ens := fc.Ensures
	if cc != nil {
		ens = append(append([]*Clause{}, ens...), cc.Ensures...)
	}
	for ri, r := range f.rets {
		e.curBlk = r.blk
		f.checkExit(ri, r, ens)
	}
	e.curBlk = nil
	if len(f.rets) > 0 {
		// canary: "ensures false" must fail at some exit
		var pcs []string
		for _, r := range f.rets {
			pcs = append(pcs, r.pc)
		}
		e.lines = append(e.lines, "; exit canary")
		o := e.oblige("vacuity", "exit-reachable", or(pcs...), "false", "some exit is reachable (this goal must fail)", fn.Pos(), nil)
		o.MustFail = true
	}
	res.Obls = e.obls
	res.Notes = e.notes
	res.Lines = len(e.lines)
	return
}

// contractEnv builds the evaluation environment of the function's own contract.
func (f *Frame) contractEnv(st, old *State) *Env {
	names := map[string]*Value{}
	for n, v := range f.params {
		names[n] = v
	}
	for _, fv := range f.fn.FreeVars {
		names[fv.Name()] = &Value{Loc: f.e.ptrLoc(f.vals[fv]), Type: fv.Type().(*types.Pointer).Elem(), T: "VAR"}
	}
	env := &Env{f: f, names: names, st: st, old: old, fnPkg: pkgOf(f.fn, nil)}
	return env
}

func (f *Frame) checkExit(ri int, r retRec, ens []*Clause) {
	e := f.e
	env := f.contractEnv(r.st, f.entry)
	sig := f.fn.Signature
	var rv *Value
	switch len(r.results) {
	case 0:
		rv = &Value{Tuple: []*Value{}}
	case 1:
		rv = r.results[0]
	default:
		rv = &Value{Tuple: r.results}
	}
	f.bindResults(env.names, sig, rv)
	for k, cl := range ens {
		lbl := cl.Label
		if lbl == "" {
			lbl = fmt.Sprint(k + 1)
		}
		for _, g := range env.evalSplit(cl.Expr) {
			e.oblige("post", lbl, r.pc, g, "postcondition at return: "+cl.Src, r.pos, cl.Props)
			// cut: a clause labelled cut.* has its own obligation and may then be used to prove the clauses after it
			if strings.HasPrefix(cl.Label, "cut.") {
				e.assume(r.pc, g)
			}
		}
	}
	// lock balance
	if !f.fc.Lockfree {
		for _, k := range sortedKeys(e.compSort) {
			if strings.HasPrefix(k, "LW.") || strings.HasPrefix(k, "LR.") {
				now := e.comp(r.st, k, "")
				was := e.comp(f.entry, k, "")
				if now != was {
					a0 := e.comp(f.entry, "alloc", arrSort(sBool))
					bal := fmt.Sprintf("(forall ((r!l Int)) (=> (select %s r!l) (= (select %s r!l) (select %s r!l))))", a0, now, was)
					e.oblige("lock", "balanced", r.pc, bal, "every lock of "+strings.TrimPrefix(strings.TrimPrefix(k, "LW."), "LR.")+" acquired here is released at return", r.pos, nil)
				}
			}
		}
	}
	// hand-off: no pending producer task at exit
	f.checkDrained(r)
	// frame
	if f.fc.HasMod || f.fc.Pure {
		f.checkFrame(r, env)
	}
}

// checkFrame: every heap cell outside the modifies clause that existed at entry is unchanged at exit.
func (f *Frame) checkFrame(r retRec, env *Env) {
	e := f.e
	for _, k := range sortedKeys(e.compSort) {
		if goal := f.frameGoal(k, r.st); goal != "" {
			e.oblige("frame", k, r.pc, goal, "nothing outside the modifies clause changes in "+k, r.pos, nil)
		}
	}
}

// frameAllowed evaluates the modifies clause (in the entry state) once.
func (f *Frame) frameAllowed() {
	if f.allowed != nil {
		return
	}
	e := f.e
	f.allowed = map[string][]string{}
	f.whole = map[string]bool{}
	pre := f.contractEnv(f.entry, f.entry)
	for _, m := range f.fc.Modifies {
		for _, t := range pre.targets(m) {
			switch t.kind {
			case "loc":
				if t.loc.Comp == "" {
					_, s := derefStruct(t.loc.Type)
					for i := 0; i < s.NumFields(); i++ {
						fl := e.fieldLoc(t.loc, s.Field(i))
						f.allowed[fl.Comp] = append(f.allowed[fl.Comp], fl.Idx[0])
					}
				} else {
					f.allowed[t.loc.Comp] = append(f.allowed[t.loc.Comp], t.loc.Idx[0])
				}
			case "elems":
				f.allowed[t.comp] = append(f.allowed[t.comp], t.idx)
			case "comp":
				f.whole[t.comp] = true
			}
		}
	}
}

func frameExempt(k string) bool {
	return k == "alloc" || strings.HasPrefix(k, "LW.") || strings.HasPrefix(k, "LR.") || strings.HasPrefix(k, "ITER.") || strings.HasPrefix(k, "CH.pending") || strings.HasPrefix(k, "CH.nrecv") || k == "CH.taken"
}

// frameGoal: "every cell of component k that existed at entry and is outside the modifies clause has its entry value in st"
// ("" when k is exempt or syntactically unchanged).
func (f *Frame) frameGoal(k string, st *State) string {
	e := f.e
	if f.fc != nil && f.fc.AssumeFrame {
		f.e.note("frame (modifies clause) of " + f.e.name + " is assumed, not checked")
		return ""
	}
	if f.fc == nil || !(f.fc.HasMod || f.fc.Pure) || frameExempt(k) {
		return ""
	}
	f.frameAllowed()
	if f.whole[k] {
		return ""
	}
	now := e.comp(st, k, "")
	was := e.comp(f.entry, k, "")
	if now == was {
		return ""
	}
	alloc0 := e.comp(f.entry, "alloc", arrSort(sBool))
	var excl []string
	for _, a := range f.allowed[k] {
		excl = append(excl, not(eq("r!f", a)))
	}
	guard := and(append([]string{sel(alloc0, "r!f")}, excl...)...)
	if strings.HasPrefix(k, "G.") || strings.HasPrefix(k, "EV.") {
		guard = and(excl...)
	}
	return fmt.Sprintf("(forall ((r!f Int)) (! (=> %s (= (select %s r!f) (select %s r!f))) :pattern ((select %s r!f))))", guard, now, was, now)
}

// evalClause evaluates a loop invariant at loop head b in state st.
func (f *Frame) evalClause(cl *Clause, st *State, b *ssa.BasicBlock) string {
	env := f.contractEnv(st, f.entry)
	env.local = func(name string) *Value { return f.localAt(name, b, st) }
	f.bindSeen(env, b)
	return env.evalBool(cl.Expr)
}

func (f *Frame) evalClauseSplit(cl *Clause, st *State, b *ssa.BasicBlock) []string {
	env := f.contractEnv(st, f.entry)
	env.local = func(name string) *Value { return f.localAt(name, b, st) }
	f.bindSeen(env, b)
	return env.evalSplit(cl.Expr)
}

// bindSeen: when loop head b advances a map iterator, seen(k) in its invariants names that iterator's visited set.
func (f *Frame) bindSeen(env *Env, b *ssa.BasicBlock) {
	for _, ins := range b.Instrs {
		if nx, ok := ins.(*ssa.Next); ok && !nx.IsString {
			if it, ok := f.vals[nx.Iter]; ok && it != nil && it.Iter != nil && it.Iter.Kind == "map" {
				mt := it.Iter.Map.Type.Underlying().(*types.Map)
				env.seenComp, env.seenSort = it.Iter.Seen, f.e.sorts.sortOf(mt.Key())
				return
			}
		}
	}
}

// localAt resolves a source-level local variable name at loop head b.
func (f *Frame) localAt(name string, b *ssa.BasicBlock, st *State) *Value {
	// 1. phi of the head named `name`
	for _, ph := range phisOf(b) {
		if ph.Comment == name {
			return f.vals[ph]
		}
	}
	// 2. DebugRefs
	var cands []*ssa.DebugRef
	for _, blk := range f.fn.Blocks {
		for _, ins := range blk.Instrs {
			if d, ok := ins.(*ssa.DebugRef); ok {
				if id, ok := d.Expr.(*ast.Ident); ok && id.Name == name {
					cands = append(cands, d)
				}
			}
		}
	}
	var best ssa.Value
	bestAddr := false
	for _, d := range cands {
		db := d.Block()
		if !(db.Dominates(b)) {
			continue
		}
		if db == b {
			// defined in the head itself: only phis (handled above) are meaningful; at a call site in the middle of
			// the block (site assertion) everything already evaluated in this block is in scope
			if _, isPhi := d.X.(*ssa.Phi); !isPhi && !f.siteMode {
				continue
			}
		}
		if _, defined := f.vals[d.X]; !defined {
			if _, isC := d.X.(*ssa.Const); !isC {
				if _, isP := d.X.(*ssa.Parameter); !isP {
					continue
				}
			}
		}
		if best != nil && best != d.X {
			// prefer the later (closer) definition: the one whose block is dominated by the other's
			if vb, ok := best.(ssa.Instruction); ok {
				if dx, ok2 := d.X.(ssa.Instruction); ok2 && vb.Block().Dominates(dx.Block()) {
					best, bestAddr = d.X, d.IsAddr
				}
			} else if _, ok2 := d.X.(ssa.Instruction); ok2 {
				// a constant or parameter (the initial value) is always the earliest definition
				best, bestAddr = d.X, d.IsAddr
			}
			continue
		}
		best, bestAddr = d.X, d.IsAddr
	}
	if best == nil {
		return nil
	}
	v := f.val(best)
	if bestAddr {
		return f.e.load(st, f.e.ptrLoc(v))
	}
	return v
}

// useLemma makes a proved lemma (or axiom) available as an assumption.
func (e *Encoder) useLemma(name string) {
	name = strings.TrimSpace(name)
	if name == "" || e.axiomsIn[name] {
		return
	}
	lm := e.ct.Lemmas[name]
	if lm == nil {
		e.fail("unknown lemma %s", name)
	}
	e.axiomsIn[name] = true
	// lemmas are kept apart from the straight-line encoding: each obligation is tried without and with them
	e.lemmaLines = append(e.lemmaLines, "; lemma "+name, "(assert "+lm.axiomForm()+")")
	if lm.Axiom {
		e.note("axiom (assumed, not proved): " + name)
	}
}

// pruneForCase folds comparisons of the case selector against constants so that other switch arms disappear.
func (f *Frame) pruneForCase(cc *CaseContract) {
	// guard of the form  <expr> == <const>: find SSA values that compute <expr> and override with the constant
	g := cc.Guard
	for g.Op == "binop" && g.Name == "&&" {
		g = g.Kids[0] // a compound guard is shaped by its first conjunct (the whole guard is still assumed)
	}
	if g.Op == "is" && g.Kids[0].Op == "name" {
		f.shapeTypeGuard(g.Kids[0].Name, g.Name)
		return
	}
	if g.Op != "binop" || g.Name != "==" {
		return
	}
	env := f.contractEnv(&State{heap: map[string]string{}}, nil)
	rhs := env.eval(g.Kids[1])
	lhs := g.Kids[0]
	// support param.Field selectors on struct-valued params
	if lhs.Op == "field" && lhs.Kids[0].Op == "name" {
		pname, fname := lhs.Kids[0].Name, lhs.Name
		// give the parameter the shape mk(..., const, ...): its field reads (also after being copied into a
		// captured cell) then yield the constant syntactically, and the other switch arms fold away
		for _, p := range f.fn.Params {
			if p.Name() != pname {
				continue
			}
			sT, s := derefStruct(p.Type())
			if s == nil || isOpaqueStruct(p.Type()) {
				continue
			}
			if _, isPtr := p.Type().Underlying().(*types.Pointer); isPtr {
				continue // a pointer parameter is not a struct value: the guard is only assumed (it reads the heap)
			}
			ss := f.e.sorts.structSortOf(sT, s)
			old := f.vals[p]
			parts := []string{}
			for k, fld := range ss.Fields {
				if fld.Name == fname {
					parts = append(parts, rhs.T)
				} else {
					parts = append(parts, f.e.define("p."+pname+"."+fld.Name, fld.Sort, app(ss.Fields[k].Acc, old.T)))
				}
			}
			t := "(" + ss.ctor() + " " + strings.Join(parts, " ") + ")"
			if f.e.parts == nil {
				f.e.parts = map[string][]string{}
			}
			f.e.parts[t] = parts
			f.e.assume("true", eq(old.T, t))
			nv := term(t, old.Sort, old.Type)
			f.vals[p] = nv
			f.params[pname] = nv
		}
		for _, b := range f.fn.Blocks {
			for _, ins := range b.Instrs {
				if fl, ok := ins.(*ssa.Field); ok {
					if p, ok := fl.X.(*ssa.Parameter); ok && p.Name() == pname {
						_, s := derefStruct(p.Type())
						if s.Field(fl.Field).Name() == fname {
							f.constOverride[fl] = rhs.T
						}
					}
				}
			}
		}
	}
}

// shapeTypeGuard handles a case guard `(param is *T)` on an interface-typed parameter: the parameter gets the
// shape (ARef <tag of *T> r) for a fresh reference r, so that the comma-ok type assertions of the type switch fold
// to true/false syntactically (anyIs) and the other arms disappear. Only pointer types are shaped.
func (f *Frame) shapeTypeGuard(pname, tyName string) {
	e := f.e
	for _, p := range f.fn.Params {
		if p.Name() != pname || e.sorts.sortOf(p.Type()) != sAny {
			continue
		}
		t := e.lookupType(tyName, f.fn.Pkg.Pkg)
		if t == nil {
			return
		}
		if _, isPtr := t.Underlying().(*types.Pointer); !isPtr {
			return
		}
		old := f.vals[p]
		r := e.declare("p."+pname+".ref", sInt)
		shaped := app("ARef", fmt.Sprint(e.sorts.tagOf(t)), r)
		e.assume("true", eq(old.T, shaped))
		nv := term(shaped, old.Sort, old.Type)
		f.vals[p] = nv
		f.params[pname] = nv
	}
}

// ---- hand-off rule (DESIGN §3.4) ----

type pendingTaskInfo struct {
	fnName string
}

func (f *Frame) goStmt(i *ssa.Go) {
	e := f.e
	var args []*Value
	for _, a := range i.Call.Args {
		args = append(args, f.val(a))
	}
	if fn, ok := i.Call.Value.(*ssa.Function); ok {
		name := e.qual(fn)
		if fc := e.ct.Funcs[name]; fc != nil {
			f.spawnProducer(fc, name, fn, args, i.Pos())
			return
		}
	}
	e.note(fmt.Sprintf("%s: go statement: spawned call is not executed (interleavings are not explored)", e.qual(f.fn)))
}

func (f *Frame) pendingTask(ch *Value) *pendingTaskInfo { return f.tasks[ch.T] }

func (f *Frame) checkDrained(r retRec) {
	e := f.e
	if _, ok := e.compSort["CH.pending"]; !ok {
		return
	}
	now := e.comp(r.st, "CH.pending", "")
	was := e.comp(f.entry, "CH.pending", "")
	if now == was {
		return
	}
	a0 := e.comp(f.entry, "alloc", arrSort(sBool))
	goals := []string{fmt.Sprintf("(forall ((c!p Int)) (=> (select %s c!p) (= (select %s c!p) (select %s c!p))))", a0, now, was)}
	var chs []string
	for ch := range f.tasks {
		chs = append(chs, ch)
	}
	sort.Strings(chs)
	for _, ch := range chs {
		goals = append(goals, eq(sel(now, ch), "0"))
	}
	e.oblige("handoff", "drained", r.pc, and(goals...),
		"no producer goroutine is left blocked on an undrained channel at return", r.pos, nil)
}

// lockCover: a read lock required by a pending producer may not be released while the producer is outstanding.
func (f *Frame) lockCover(rn, idx string, pos token.Pos) {
	e := f.e
	if f.dry {
		return
	}
	for ch, t := range f.covers {
		// only on paths that passed the go statement (its block dominates the current one)
		if t.comp == rn && (t.blk == nil || f.cur == nil || t.blk.Dominates(f.cur)) {
			pend := e.comp(f.st, "CH.pending", arrSort(sInt))
			e.oblige("handoff", "lock-cover", f.pc, implies(eq(idx, t.idx), eq(sel(pend, ch), "0")),
				"the lock protecting a producer goroutine's reads is not released before its channel is drained", pos, nil)
		}
	}
}

type coverInfo struct {
	comp, idx string
	blk       *ssa.BasicBlock // block of the go statement
}

var _ = sort.Strings
