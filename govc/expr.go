package main

import (
	"fmt"
	"strconv"
	"strings"
	"unicode"
)

// Node is a contract-expression AST node.
type Node struct {
	Op   string // name int float str char bool nil field index call unop binop forall exists old smt is
	Name string
	Kids []*Node
	Lit  string
	// binders for quantifiers
	Binders []Binder
	Src     string
}

type Binder struct{ Name, Type string }

type tok struct {
	kind string // id num str char op eof
	text string
}

func tokenize(s string) ([]tok, error) {
	var ts []tok
	i := 0
	ops := []string{"<==>", "==>", "==", "!=", "<=", ">=", "&&", "||", "::", "(", ")", "[", "]", ",", ".", "+", "-", "*", "/", "%", "!", "<", ">", ":", "?", "{", "}"}
	for i < len(s) {
		c := s[i]
		if c == ' ' || c == '\t' || c == '\n' {
			i++
			continue
		}
		if unicode.IsLetter(rune(c)) || c == '_' || c == '$' {
			j := i
			for j < len(s) && (unicode.IsLetter(rune(s[j])) || unicode.IsDigit(rune(s[j])) || s[j] == '_' || s[j] == '$') {
				j++
			}
			ts = append(ts, tok{"id", s[i:j]})
			i = j
			continue
		}
		if unicode.IsDigit(rune(c)) {
			j := i
			for j < len(s) && (unicode.IsDigit(rune(s[j])) || s[j] == '.' && j+1 < len(s) && unicode.IsDigit(rune(s[j+1])) || s[j] == 'e' || s[j] == 'x' || (s[j] >= 'a' && s[j] <= 'f') || (s[j] >= 'A' && s[j] <= 'F')) {
				j++
			}
			ts = append(ts, tok{"num", s[i:j]})
			i = j
			continue
		}
		if c == '"' {
			j := i + 1
			for j < len(s) && s[j] != '"' {
				if s[j] == '\\' {
					j++
				}
				j++
			}
			if j >= len(s) {
				return nil, fmt.Errorf("unterminated string in %q", s)
			}
			u, err := strconv.Unquote(s[i : j+1])
			if err != nil {
				return nil, fmt.Errorf("bad string %s: %v", s[i:j+1], err)
			}
			ts = append(ts, tok{"str", u})
			i = j + 1
			continue
		}
		if c == '\'' {
			j := i + 1
			for j < len(s) && s[j] != '\'' {
				if s[j] == '\\' {
					j++
				}
				j++
			}
			r, _, _, err := strconv.UnquoteChar(s[i+1:j], '\'')
			if err != nil {
				return nil, fmt.Errorf("bad char in %q", s)
			}
			ts = append(ts, tok{"num", strconv.Itoa(int(r))})
			i = j + 1
			continue
		}
		if c == '`' { // raw smt term
			j := strings.IndexByte(s[i+1:], '`')
			if j < 0 {
				return nil, fmt.Errorf("unterminated raw smt in %q", s)
			}
			ts = append(ts, tok{"smt", s[i+1 : i+1+j]})
			i = i + j + 2
			continue
		}
		matched := false
		for _, op := range ops {
			if strings.HasPrefix(s[i:], op) {
				ts = append(ts, tok{"op", op})
				i += len(op)
				matched = true
				break
			}
		}
		if !matched {
			return nil, fmt.Errorf("unexpected character %q in %q", c, s)
		}
	}
	ts = append(ts, tok{"eof", ""})
	return ts, nil
}

type exprParser struct {
	ts  []tok
	pos int
	src string
}

func parseExpr(s string) (*Node, error) {
	ts, err := tokenize(s)
	if err != nil {
		return nil, err
	}
	p := &exprParser{ts: ts, src: s}
	n, err := p.expr(0)
	if err != nil {
		return nil, fmt.Errorf("%v in %q", err, s)
	}
	if p.peek().kind != "eof" {
		return nil, fmt.Errorf("trailing tokens at %q in %q", p.peek().text, s)
	}
	n.Src = s
	return n, nil
}

// parseExprList parses comma separated expressions.
func parseExprList(s string) ([]*Node, error) {
	ts, err := tokenize(s)
	if err != nil {
		return nil, err
	}
	p := &exprParser{ts: ts, src: s}
	var out []*Node
	for {
		n, err := p.expr(0)
		if err != nil {
			return nil, fmt.Errorf("%v in %q", err, s)
		}
		out = append(out, n)
		if p.peek().text == "," {
			p.pos++
			continue
		}
		break
	}
	if p.peek().kind != "eof" {
		return nil, fmt.Errorf("trailing tokens at %q in %q", p.peek().text, s)
	}
	return out, nil
}

func (p *exprParser) peek() tok { return p.ts[p.pos] }
func (p *exprParser) next() tok { t := p.ts[p.pos]; p.pos++; return t }
func (p *exprParser) expect(op string) error {
	if p.peek().text != op {
		return fmt.Errorf("expected %q got %q", op, p.peek().text)
	}
	p.pos++
	return nil
}

var binPrec = map[string]int{"<==>": 1, "==>": 2, "||": 3, "&&": 4, "==": 5, "!=": 5, "<": 5, "<=": 5, ">": 5, ">=": 5, "+": 6, "-": 6, "*": 7, "/": 7, "%": 7}

func (p *exprParser) expr(minPrec int) (*Node, error) {
	lhs, err := p.unary()
	if err != nil {
		return nil, err
	}
	for {
		t := p.peek()
		if t.kind != "op" && !(t.kind == "id" && (t.text == "in" || t.text == "is")) {
			break
		}
		if t.kind == "id" && t.text == "in" {
			if 5 < minPrec {
				break
			}
			p.pos++
			rhs, err := p.expr(6)
			if err != nil {
				return nil, err
			}
			lhs = &Node{Op: "call", Name: "has", Kids: []*Node{rhs, lhs}}
			continue
		}
		if t.kind == "id" && t.text == "is" {
			if 5 < minPrec {
				break
			}
			p.pos++
			ty, err := p.typeName()
			if err != nil {
				return nil, err
			}
			lhs = &Node{Op: "is", Name: ty, Kids: []*Node{lhs}}
			continue
		}
		prec, ok := binPrec[t.text]
		if !ok || prec < minPrec {
			break
		}
		p.pos++
		nextMin := prec + 1
		if t.text == "==>" {
			nextMin = prec // right assoc
		}
		rhs, err := p.expr(nextMin)
		if err != nil {
			return nil, err
		}
		lhs = &Node{Op: "binop", Name: t.text, Kids: []*Node{lhs, rhs}}
	}
	return lhs, nil
}

func (p *exprParser) typeName() (string, error) {
	var b strings.Builder
	for {
		t := p.peek()
		if t.kind == "id" || t.text == "*" || t.text == "." || t.text == "[" || t.text == "]" {
			b.WriteString(t.text)
			p.pos++
			continue
		}
		break
	}
	if b.Len() == 0 {
		return "", fmt.Errorf("expected type name at %q", p.peek().text)
	}
	return b.String(), nil
}

func (p *exprParser) unary() (*Node, error) {
	t := p.peek()
	if t.kind == "op" && (t.text == "!" || t.text == "-") {
		p.pos++
		k, err := p.unary()
		if err != nil {
			return nil, err
		}
		return &Node{Op: "unop", Name: t.text, Kids: []*Node{k}}, nil
	}
	if t.kind == "id" && (t.text == "forall" || t.text == "exists") {
		p.pos++
		var bs []Binder
		for {
			nm := p.next()
			if nm.kind != "id" {
				return nil, fmt.Errorf("expected binder name")
			}
			ty, err := p.typeName()
			if err != nil {
				return nil, err
			}
			bs = append(bs, Binder{nm.text, ty})
			if p.peek().text == "," {
				p.pos++
				continue
			}
			break
		}
		if err := p.expect("::"); err != nil {
			return nil, err
		}
		body, err := p.expr(0)
		if err != nil {
			return nil, err
		}
		return &Node{Op: t.text, Binders: bs, Kids: []*Node{body}}, nil
	}
	return p.postfix()
}

func (p *exprParser) postfix() (*Node, error) {
	n, err := p.primary()
	if err != nil {
		return nil, err
	}
	for {
		t := p.peek()
		switch {
		case t.text == "." && t.kind == "op":
			p.pos++
			f := p.next()
			if f.kind != "id" {
				return nil, fmt.Errorf("expected field name after '.'")
			}
			n = &Node{Op: "field", Name: f.text, Kids: []*Node{n}}
		case t.text == "[" && t.kind == "op":
			p.pos++
			if p.peek().text == "*" && p.ts[p.pos+1].text == "]" {
				p.pos += 2
				n = &Node{Op: "allelems", Kids: []*Node{n}}
				continue
			}
			i, err := p.expr(0)
			if err != nil {
				return nil, err
			}
			if err := p.expect("]"); err != nil {
				return nil, err
			}
			n = &Node{Op: "index", Kids: []*Node{n, i}}
		case t.text == "(" && t.kind == "op" && (n.Op == "name" || n.Op == "field"):
			p.pos++
			var args []*Node
			if p.peek().text != ")" {
				for {
					a, err := p.expr(0)
					if err != nil {
						return nil, err
					}
					args = append(args, a)
					if p.peek().text == "," {
						p.pos++
						continue
					}
					break
				}
			}
			if err := p.expect(")"); err != nil {
				return nil, err
			}
			name := n.Name
			if n.Op == "field" {
				// qualified call pkg.f(...)
				if n.Kids[0].Op == "name" {
					name = n.Kids[0].Name + "." + n.Name
				} else {
					return nil, fmt.Errorf("method calls are not supported in contracts")
				}
			}
			if name == "old" && len(args) == 1 {
				n = &Node{Op: "old", Kids: args}
			} else {
				n = &Node{Op: "call", Name: name, Kids: args}
			}
		default:
			return n, nil
		}
	}
}

func (p *exprParser) primary() (*Node, error) {
	t := p.next()
	switch t.kind {
	case "num":
		if strings.ContainsAny(t.text, ".") {
			return &Node{Op: "float", Lit: t.text}, nil
		}
		return &Node{Op: "int", Lit: t.text}, nil
	case "str":
		return &Node{Op: "str", Lit: t.text}, nil
	case "smt":
		return &Node{Op: "smt", Lit: t.text}, nil
	case "id":
		switch t.text {
		case "true", "false":
			return &Node{Op: "bool", Lit: t.text}, nil
		case "nil":
			return &Node{Op: "nil"}, nil
		}
		return &Node{Op: "name", Name: t.text}, nil
	case "op":
		if t.text == "(" {
			n, err := p.expr(0)
			if err != nil {
				return nil, err
			}
			if err := p.expect(")"); err != nil {
				return nil, err
			}
			return n, nil
		}
	}
	return nil, fmt.Errorf("unexpected token %q", t.text)
}

func (n *Node) String() string {
	if n == nil {
		return "<nil>"
	}
	if n.Src != "" {
		return n.Src
	}
	switch n.Op {
	case "name":
		return n.Name
	case "int", "float", "bool":
		return n.Lit
	case "str":
		return strconv.Quote(n.Lit)
	case "nil":
		return "nil"
	case "field":
		return n.Kids[0].String() + "." + n.Name
	case "index":
		return n.Kids[0].String() + "[" + n.Kids[1].String() + "]"
	case "allelems":
		return n.Kids[0].String() + "[*]"
	case "old":
		return "old(" + n.Kids[0].String() + ")"
	case "call":
		var as []string
		for _, k := range n.Kids {
			as = append(as, k.String())
		}
		return n.Name + "(" + strings.Join(as, ", ") + ")"
	case "unop":
		return n.Name + n.Kids[0].String()
	case "binop":
		return "(" + n.Kids[0].String() + " " + n.Name + " " + n.Kids[1].String() + ")"
	case "forall", "exists":
		var bs []string
		for _, b := range n.Binders {
			bs = append(bs, b.Name+" "+b.Type)
		}
		return n.Op + " " + strings.Join(bs, ", ") + " :: " + n.Kids[0].String()
	case "is":
		return n.Kids[0].String() + " is " + n.Name
	case "smt":
		return "`" + n.Lit + "`"
	}
	return "?" + n.Op
}
