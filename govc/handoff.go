package main

import (
	"go/token"
	"go/types"
	"math"

	"golang.org/x/tools/go/ssa"
)

func float64bits(f float64) uint64 { return math.Float64bits(f) }

// spawnProducer implements the hand-off rule of DESIGN §3.4 for `go producer(c)` where producer has a contract:
// the producer's requires is checked against the spawner's state, its effects (sends on c, close, fresh objects)
// are applied at once, and the channel is marked as having a pending producer until the consumer has observed
// the end of the stream.
func (f *Frame) spawnProducer(fc *FuncContract, name string, fn *ssa.Function, args []*Value, pos token.Pos) {
	e := f.e
	var ch *Value
	for i, p := range fn.Params {
		if _, ok := p.Type().Underlying().(*types.Chan); ok {
			ch = args[i]
		}
	}
	if ch == nil {
		e.fail("go %s: hand-off rule needs a channel parameter", name)
	}
	// locks named in the producer's requires must stay held while it is pending
	names := f.calleeEnv(fn, fn.Signature, args, nil)
	env := &Env{f: f, names: names, st: f.st, old: f.st, fnPkg: pkgOf(fn, f.fn)}
	for _, cl := range fc.Requires {
		walkNodes(cl.Expr, func(n *Node) {
			if n.Op == "call" && n.Name == "heldR" {
				l := env.lockLoc(n.Kids[0])
				_, rn, idx := e.lockComps(l)
				if f.covers == nil {
					f.covers = map[string]coverInfo{}
				}
				f.covers[ch.T] = coverInfo{rn, idx, f.cur}
			}
		})
	}
	f.applyContract(fc, name, fn, fn.Signature, args, nil, pos)
	pend := e.comp(f.st, "CH.pending", arrSort(sInt))
	e.setComp(f.st, "CH.pending", store(pend, ch.T, "1"))
	if f.tasks == nil {
		f.tasks = map[string]*pendingTaskInfo{}
	}
	f.tasks[ch.T] = &pendingTaskInfo{fnName: name}
	e.note("hand-off rule (DESIGN §3.4) applied to `go " + name + "`: producer effects applied at spawn, consumer must drain and keep the covering lock")
}

func walkNodes(n *Node, fn func(*Node)) {
	if n == nil {
		return
	}
	fn(n)
	for _, k := range n.Kids {
		walkNodes(k, fn)
	}
}

func (f *Frame) recvFromTask(i *ssa.UnOp, ch *Value, task *pendingTaskInfo) {
	e := f.e
	el := i.X.Type().Underlying().(*types.Chan).Elem()
	vn, vs := f.chanValsComp(ch.Type)
	vals := e.comp(f.st, vn, arrSort(arrSort(vs)))
	ns := e.comp(f.st, "CH.nsent", arrSort(sInt))
	nr := e.comp(f.st, "CH.nrecv", arrSort(sInt))
	pend := e.comp(f.st, "CH.pending", arrSort(sInt))
	k := sel(nr, ch.T)
	ok := e.define(f.id+"."+i.Name()+".ok", sBool, app("<", k, sel(ns, ch.T)))
	v := term(e.define(f.id+"."+i.Name()+".v", vs, ite(ok, sel(sel(vals, ch.T), k), e.sorts.zero(el))), vs, el)
	e.assumeAllocated(f.st, and(f.pc, ok), v)
	e.setComp(f.st, "CH.nrecv", store(nr, ch.T, ite(ok, app("+", k, "1"), k)))
	e.setComp(f.st, "CH.pending", store(pend, ch.T, ite(ok, sel(pend, ch.T), "0")))
	if i.CommaOk {
		f.vals[i] = &Value{Type: i.Type(), Tuple: []*Value{v, term(ok, sBool, types.Typ[types.Bool])}}
	} else {
		f.vals[i] = v
	}
}
