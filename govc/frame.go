package main

import (
	"fmt"
	"go/ast"
	"go/token"
	"go/types"
	"os"
	"regexp"
	"sort"
	"strings"

	"golang.org/x/tools/go/ssa"
)

// Frame is one activation being encoded (the function under contract, or an inlined callee).
type Frame struct {
	e      *Encoder
	fn     *ssa.Function
	id     string
	vals   map[ssa.Value]*Value
	reach  map[*ssa.BasicBlock]string
	out    map[*ssa.BasicBlock]*State
	outPC  map[*ssa.BasicBlock]string
	top    bool
	entry  *State // state at function entry (for old())
	loops  map[*ssa.BasicBlock]*loopInfo
	order  []*ssa.BasicBlock
	defers []deferRec
	rets   []retRec
	entryPC string
	entrySt *State
	depth  int
	fc     *FuncContract
	params map[string]*Value
	// per-block mutable
	pc  string
	st  *State
	cur *ssa.BasicBlock
	dry bool
	siteMode bool // resolving names for a site assertion in the middle of the current block
	// constant overrides (case pruning)
	constOverride map[ssa.Value]string
	allowed       map[string][]string
	whole         map[string]bool
	tasks         map[string]*pendingTaskInfo
	covers        map[string]coverInfo
}

type deferRec struct {
	call  *ssa.Defer
	cond  string // reach of the defer statement
	args  []*Value
	fnVal *Value
}

type retRec struct {
	pc      string
	results []*Value
	st      *State
	pos     token.Pos
	blk     *ssa.BasicBlock
}

type loopInfo struct {
	head    *ssa.BasicBlock
	body    map[*ssa.BasicBlock]bool
	latches []*ssa.BasicBlock
	ordinal int
	phiNew  map[*ssa.Phi]*Value
	entrySt *State
	mods    []string
}

func (e *Encoder) newFrame(fn *ssa.Function, depth int) *Frame {
	e.n++
	f := &Frame{e: e, fn: fn, id: fmt.Sprintf("f%d", e.n), vals: map[ssa.Value]*Value{}, reach: map[*ssa.BasicBlock]string{},
		out: map[*ssa.BasicBlock]*State{}, outPC: map[*ssa.BasicBlock]string{}, loops: map[*ssa.BasicBlock]*loopInfo{}, depth: depth,
		params: map[string]*Value{}, constOverride: map[ssa.Value]string{}}
	f.analyseLoops()
	return f
}

func isBackEdge(from, to *ssa.BasicBlock) bool { return to.Dominates(from) }

func (f *Frame) analyseLoops() {
	fn := f.fn
	if len(fn.Blocks) == 0 {
		return
	}
	// reverse postorder ignoring back edges
	seen := map[*ssa.BasicBlock]bool{}
	var post []*ssa.BasicBlock
	var dfs func(b *ssa.BasicBlock)
	dfs = func(b *ssa.BasicBlock) {
		seen[b] = true
		// successors in reverse, so that in reverse postorder a loop body precedes the loop's exit blocks
		for k := len(b.Succs) - 1; k >= 0; k-- {
			s := b.Succs[k]
			if !seen[s] && !isBackEdge(b, s) {
				dfs(s)
			}
		}
		post = append(post, b)
	}
	dfs(fn.Blocks[0])
	for i := len(post) - 1; i >= 0; i-- {
		f.order = append(f.order, post[i])
	}
	var heads []*ssa.BasicBlock
	for _, b := range f.order {
		for _, s := range b.Succs {
			if isBackEdge(b, s) {
				li := f.loops[s]
				if li == nil {
					li = &loopInfo{head: s, body: map[*ssa.BasicBlock]bool{s: true}}
					f.loops[s] = li
					heads = append(heads, s)
				}
				li.latches = append(li.latches, b)
				// body: blocks that reach b without passing s
				var walk func(x *ssa.BasicBlock)
				walk = func(x *ssa.BasicBlock) {
					if li.body[x] {
						return
					}
					li.body[x] = true
					for _, p := range x.Preds {
						walk(p)
					}
				}
				walk(b)
			}
		}
	}
	sort.Slice(heads, func(i, j int) bool { return heads[i].Index < heads[j].Index })
	for i, h := range heads {
		f.loops[h].ordinal = i + 1
	}
}

// val returns the encoder value of an SSA value.
func (f *Frame) val(v ssa.Value) *Value {
	if ov, ok := f.constOverride[v]; ok {
		return term(ov, f.e.sorts.sortOf(v.Type()), v.Type())
	}
	switch c := v.(type) {
	case *ssa.Const:
		return f.e.constVal(c)
	case *ssa.Function:
		return &Value{Fn: c, Type: c.Type()}
	case *ssa.Global:
		t := c.Type().(*types.Pointer).Elem()
		name := "G." + shortPkg(c.Pkg.Pkg.Path()) + "." + c.Name()
		return &Value{Loc: &Loc{Comp: name, Idx: []string{"0"}, Type: t, Root: t}, Type: c.Type()}
	case *ssa.Builtin:
		return &Value{Type: c.Type(), T: "builtin:" + c.Name()}
	}
	if x, ok := f.vals[v]; ok {
		return x
	}
	f.e.fail("%s: value %s (%T) used before definition", f.fn.Name(), v.Name(), v)
	return nil
}

// freshParam creates an unconstrained value of Go type t.
func (f *Frame) freshOf(base string, t types.Type) *Value {
	e := f.e
	if tup, ok := t.(*types.Tuple); ok {
		v := &Value{Type: t}
		for i := 0; i < tup.Len(); i++ {
			v.Tuple = append(v.Tuple, f.freshOf(fmt.Sprintf("%s.%d", base, i), tup.At(i).Type()))
		}
		if v.Tuple == nil {
			v.Tuple = []*Value{}
		}
		return v
	}
	return term(e.declare(base, e.sorts.sortOf(t)), e.sorts.sortOf(t), t)
}

// run encodes the function body from the given entry state. Results are collected in f.rets.
func (f *Frame) run(entryPC string, st *State) {
	e := f.e
	fn := f.fn
	if len(fn.Blocks) == 0 {
		e.fail("function %s has no body", fn.Name())
	}
	f.entry = st.clone()
	if f.top {
		e.topEntry = f.entry
	}
	f.entryPC, f.entrySt = entryPC, st
	f.process(f.order, nil)
}

// process encodes the given blocks (in topological order). dryHead != nil means a dry run of that loop's body
// (used to discover which heap components the loop writes): the head is entered with the given state and no
// invariant work is done for it.
func (f *Frame) process(blocks []*ssa.BasicBlock, dry *dryRun) {
	fn := f.fn
	for _, b := range blocks {
		var pc string
		var cur *State
		if f.top {
			f.e.curBlk = b
		}
		if dry != nil && b == dry.head {
			pc, cur = dry.pc, dry.st.clone()
			for _, ph := range phisOf(b) {
				f.vals[ph] = f.freshOf(f.id+"."+ph.Name()+".dry", ph.Type())
			}
		} else if li := f.loops[b]; li != nil {
			pc, cur = f.enterLoop(b, li)
		} else if b == fn.Blocks[0] {
			pc, cur = f.entryPC, f.entrySt.clone()
		} else {
			pc, cur = f.mergePreds(b, nil)
		}
		f.reach[b] = pc
		if pc == "false" {
			f.out[b] = cur
			f.outPC[b] = "false"
			continue
		}
		f.pc, f.st, f.cur = pc, cur, b
		if f.top {
			f.e.curBlk = b
		}
		f.block(b)
		f.out[b] = f.st
		f.outPC[b] = f.pc
		// back edges out of this block: check invariants preserved
		for _, s := range b.Succs {
			if isBackEdge(b, s) && !f.dry && !(dry != nil && s == dry.head) {
				f.loopBackEdge(b, s)
			}
		}
	}
}

type dryRun struct {
	head *ssa.BasicBlock
	pc   string
	st   *State
}

// loopModsDry runs the loop body once without recording anything and reports the heap components it writes.
func (f *Frame) loopModsDry(li *loopInfo, pc string, st *State) []string {
	e := f.e
	// snapshot
	nLines, nObls := len(e.lines), len(e.obls)
	savedBlk := e.curBlk
	savedCells := map[string][]string{}
	for k, v := range e.localCells {
		savedCells[k] = append([]string{}, v...)
	}
	defer func() { e.localCells = savedCells }()
	oblCount := map[string]int{}
	for k, v := range e.oblCount {
		oblCount[k] = v
	}
	compDecl := map[string]bool{}
	for k, v := range e.compDecl {
		compDecl[k] = v
	}
	vals := map[ssa.Value]*Value{}
	for k, v := range f.vals {
		vals[k] = v
	}
	reach, out, outPC := f.reach, f.out, f.outPC
	f.reach, f.out, f.outPC = map[*ssa.BasicBlock]string{}, map[*ssa.BasicBlock]*State{}, map[*ssa.BasicBlock]string{}
	for k, v := range reach {
		f.reach[k] = v
	}
	for k, v := range out {
		f.out[k] = v
	}
	for k, v := range outPC {
		f.outPC[k] = v
	}
	defers, rets := f.defers, f.rets
	wasDry, savedPC, savedSt, savedCur := f.dry, f.pc, f.st, f.cur
	f.dry = true
	var body []*ssa.BasicBlock
	for _, b := range f.order {
		if li.body[b] {
			body = append(body, b)
		}
	}
	f.process(body, &dryRun{head: li.head, pc: pc, st: st})
	set := map[string]bool{}
	for _, b := range body {
		for k, t := range f.out[b].heap {
			if strings.HasPrefix(k, "ITER.") {
				set[k] = true
				continue
			}
			if st.heap[k] != t && !(st.heap[k] == "" && t == smtQuote(k+"@0")) {
				set[k] = true
			}
		}
	}
	// restore
	e.lines, e.obls, e.oblCount, e.compDecl = e.lines[:nLines], e.obls[:nObls], oblCount, compDecl
	e.lineBlk = e.lineBlk[:nLines]
	e.curBlk = savedBlk
	f.vals, f.reach, f.out, f.outPC, f.defers, f.rets = vals, reach, out, outPC, defers, rets
	f.dry, f.pc, f.st, f.cur = wasDry, savedPC, savedSt, savedCur
	var res []string
	for k := range set {
		res = append(res, k)
	}
	sort.Strings(res)
	return res
}

// edgeCond returns the condition under which control flows from p to b.
func (f *Frame) edgeCond(p, b *ssa.BasicBlock) string {
	pc, ok := f.outPC[p]
	if !ok {
		return "false" // unprocessed (unreachable) predecessor
	}
	if pc == "false" {
		return "false"
	}
	if len(p.Instrs) == 0 {
		return pc
	}
	if iff, ok := p.Instrs[len(p.Instrs)-1].(*ssa.If); ok {
		c := f.val(iff.Cond).T
		if p.Succs[0] == b && p.Succs[1] == b {
			return pc
		}
		if p.Succs[0] == b {
			return and(pc, c)
		}
		return and(pc, not(c))
	}
	return pc
}

// mergePreds computes reach condition and merged state from (non back-edge) predecessors; also defines phis.
func (f *Frame) mergePreds(b *ssa.BasicBlock, only func(p *ssa.BasicBlock) bool) (string, *State) {
	e := f.e
	type inc struct {
		p    *ssa.BasicBlock
		cond string
		idx  int
	}
	var ins []inc
	for i, p := range b.Preds {
		if isBackEdge(p, b) {
			continue
		}
		if only != nil && !only(p) {
			continue
		}
		c := f.edgeCond(p, b)
		if c == "false" {
			continue
		}
		ins = append(ins, inc{p, c, i})
	}
	if len(ins) == 0 {
		return "false", &State{heap: map[string]string{}}
	}
	var conds []string
	for i := range ins {
		ins[i].cond = e.define("edge", sBool, ins[i].cond)
		conds = append(conds, ins[i].cond)
	}
	pc := e.define("reach."+b.String(), sBool, or(conds...))
	if f.top && len(conds) >= 2 && len(conds) <= 4 {
		if e.blockCases == nil {
			e.blockCases = map[*ssa.BasicBlock][]string{}
		}
		e.blockCases[b] = conds
	}
	// phis
	for _, ins0 := range b.Instrs {
		phi, ok := ins0.(*ssa.Phi)
		if !ok {
			break
		}
		if f.loops[b] != nil {
			continue // loop-head phis handled by enterLoop
		}
		var vs []*Value
		for _, in := range ins {
			vs = append(vs, f.val(phi.Edges[in.idx]))
		}
		f.vals[phi] = f.mergeValues(phi.Name(), phi.Type(), conds, vs)
	}
	// heap
	st := &State{heap: map[string]string{}}
	if len(ins) == 1 {
		st = f.out[ins[0].p].clone()
	} else {
		names := map[string]bool{}
		var sts []*State
		for _, in := range ins {
			sts = append(sts, f.out[in.p])
			for k := range f.out[in.p].heap {
				names[k] = true
			}
		}
		st.havocs = e.mergeEpoch(sts)
		var ks []string
		for k := range names {
			ks = append(ks, k)
		}
		sort.Strings(ks)
		for _, k := range ks {
			same := true
			first := e.comp(f.out[ins[0].p], k, "")
			for _, in := range ins[1:] {
				if e.comp(f.out[in.p], k, "") != first {
					same = false
				}
			}
			if same {
				st.heap[k] = first
				continue
			}
			nv := e.declare(k, e.compSort[k])
			for _, in := range ins {
				e.emit("(assert " + implies(in.cond, eq(nv, e.comp(f.out[in.p], k, ""))) + ")")
			}
			st.heap[k] = nv
		}
	}
	return pc, st
}

func (f *Frame) mergeValues(name string, t types.Type, conds []string, vs []*Value) *Value {
	e := f.e
	if len(vs) == 1 {
		return vs[0]
	}
	allSame := true
	for _, v := range vs[1:] {
		if v.Loc != nil || v.Tuple != nil || v.Fn != nil || vs[0].Loc != nil || v.T != vs[0].T {
			allSame = false
		}
	}
	if allSame && vs[0].Loc == nil && vs[0].Tuple == nil && vs[0].Fn == nil {
		return vs[0]
	}
	if vs[0].Tuple != nil {
		r := &Value{Type: t}
		for i := range vs[0].Tuple {
			var col []*Value
			for _, v := range vs {
				col = append(col, v.Tuple[i])
			}
			r.Tuple = append(r.Tuple, f.mergeValues(fmt.Sprintf("%s.%d", name, i), vs[0].Tuple[i].Type, conds, col))
		}
		return r
	}
	for _, v := range vs {
		if v.Loc != nil || v.Fn != nil {
			// identical static values are fine
			same := true
			for _, w := range vs {
				if fmt.Sprint(w) != fmt.Sprint(v) {
					same = false
				}
			}
			if same {
				return v
			}
			e.fail("%s: cannot merge static pointer/function values at phi %s", f.fn.Name(), name)
		}
	}
	sortT := e.sorts.sortOf(t)
	nv := e.declare(f.id+"."+name, sortT)
	for i, v := range vs {
		e.emit("(assert " + implies(conds[i], eq(nv, v.T)) + ")")
	}
	return term(nv, sortT, t)
}

// ---- loops ----

func (f *Frame) enterLoop(b *ssa.BasicBlock, li *loopInfo) (string, *State) {
	e := f.e
	var pc string
	var st *State
	if b == f.fn.Blocks[0] {
		pc, st = f.entryPC, f.entrySt.clone()
	} else {
		pc, st = f.mergePreds(b, nil)
	}
	if pc == "false" {
		return pc, st
	}
	li.entrySt = st
	// entry values of phis
	entryVals := map[*ssa.Phi]*Value{}
	var conds []string
	var idxs []int
	for i, p := range b.Preds {
		if isBackEdge(p, b) {
			continue
		}
		c := f.edgeCond(p, b)
		if c == "false" {
			continue
		}
		conds = append(conds, c)
		idxs = append(idxs, i)
	}
	for _, ins := range b.Instrs {
		phi, ok := ins.(*ssa.Phi)
		if !ok {
			break
		}
		var vs []*Value
		for _, i := range idxs {
			vs = append(vs, f.val(phi.Edges[i]))
		}
		entryVals[phi] = f.mergeValues(phi.Name()+".entry", phi.Type(), conds, vs)
	}
	invs := f.loopInvariants(li)
	// established
	for _, ph := range phisOf(b) {
		f.vals[ph] = entryVals[ph]
	}
	if !f.dry {
		for _, cl := range invs {
			for _, g := range f.evalClauseSplit(cl, st, b) {
				e.oblige(fmt.Sprintf("loop%d.established", li.ordinal), cl.Label, pc, g, "loop invariant holds on entry: "+cl.Src, b.Instrs[0].Pos(), cl.Props)
			}
		}
	}
	// havoc
	mods := f.loopModsDry(li, pc, st)
	li.mods = mods
	// implicit invariant: the function's frame condition holds so far
	if f.top && !f.dry {
		for _, c := range mods {
			if g := f.frameGoal(c, st); g != "" {
				e.oblige(fmt.Sprintf("loop%d.established", li.ordinal), "frame."+c, pc, g, "function frame holds on loop entry for "+c, b.Instrs[0].Pos(), nil)
			}
		}
	}
	st = st.clone()
	e.inLoopHavoc = true
	defer func() { e.inLoopHavoc = false }()
	preLoop := st.clone()
	for _, c := range mods {
		if c == "*" {
			for k := range e.compSort {
				e.havocComp(st, k)
			}
			e.havocEpoch(st)
			break
		}
		e.havocComp(st, c)
	}
	// private local-variable cells that the loop body never stores to keep their value
	for _, c := range mods {
		refs := e.localCells[c]
		if len(refs) == 0 {
			continue
		}
		cur := e.comp(st, c, "")
		t := cur
		for _, r := range refs {
			if a := e.cellAlloc[r]; a != nil && e.cellLive(r) && !storedInBlocks(a, li.body) {
				t = store(t, r, sel(e.comp(preLoop, c, ""), r))
			}
		}
		if t != cur {
			st.heap[c] = e.define(c, e.compSort[c], t)
		}
	}
	li.phiNew = map[*ssa.Phi]*Value{}
	for _, ph := range phisOf(b) {
		nv := f.freshOf(f.id+"."+ph.Name(), ph.Type())
		li.phiNew[ph] = nv
		f.vals[ph] = nv
		e.assumeAllocated(st, pc, nv)
	}
	// monotone allocation: everything allocated at loop entry is still allocated
	if contains(mods, "alloc") || contains(mods, "*") {
		a0 := e.comp(li.entrySt, "alloc", arrSort(sBool))
		a1 := e.comp(st, "alloc", arrSort(sBool))
		e.assume("true", fmt.Sprintf("(forall ((r Int)) (! (=> (select %s r) (select %s r)) :pattern ((select %s r))))", a0, a1, a1))
		e.assume("true", not(sel(a1, "0")))
	}
	if f.top {
		for _, c := range mods {
			if g := f.frameGoal(c, st); g != "" {
				e.assume(pc, g)
			}
		}
	}
	// implicit invariant: at the loop head every lock of an object that existed on loop entry is in the state it had then
	for _, c := range mods {
		if g := f.lockStable(c, li, st); g != "" {
			e.assume(pc, g)
		}
	}
	for _, cl := range invs {
		e.assume(pc, f.evalClause(cl, st, b))
	}
	return pc, st
}

func contains(xs []string, x string) bool {
	for _, y := range xs {
		if y == x {
			return true
		}
	}
	return false
}

func phisOf(b *ssa.BasicBlock) []*ssa.Phi {
	var ps []*ssa.Phi
	for _, ins := range b.Instrs {
		phi, ok := ins.(*ssa.Phi)
		if !ok {
			break
		}
		ps = append(ps, phi)
	}
	return ps
}

func (f *Frame) loopBackEdge(from, head *ssa.BasicBlock) {
	e := f.e
	li := f.loops[head]
	c := f.edgeCond(from, head)
	if c == "false" {
		return
	}
	idx := -1
	for i, p := range head.Preds {
		if p == from {
			idx = i
		}
	}
	saved := map[*ssa.Phi]*Value{}
	for _, ph := range phisOf(head) {
		saved[ph] = f.vals[ph]
	}
	// evaluate with phis bound to the back-edge values
	newVals := map[*ssa.Phi]*Value{}
	for _, ph := range phisOf(head) {
		newVals[ph] = f.val(ph.Edges[idx])
	}
	for ph, v := range newVals {
		f.vals[ph] = v
	}
	for _, cl := range f.loopInvariants(li) {
		for _, g := range f.evalClauseSplit(cl, f.out[from], head) {
			e.oblige(fmt.Sprintf("loop%d.preserved", li.ordinal), cl.Label, c, g, "loop invariant preserved: "+cl.Src, head.Instrs[0].Pos(), cl.Props)
			if strings.HasPrefix(cl.Label, "cut.") {
				e.assume(c, g) // cut: available to the clauses after it
			}
		}
	}
	if f.fc != nil {
		for _, cl := range f.fc.BackEdge[li.ordinal] {
			env := f.contractEnv(f.out[from], f.entry)
			env.local = func(name string) *Value { v, _ := f.localLatest(name, from, li, f.out[from]); return v }
			env.defined = func(name string) string { _, d := f.localLatest(name, from, li, f.out[from]); return d }
			for _, g := range env.evalSplit(cl.Expr) {
				e.oblige(fmt.Sprintf("loop%d.backedge", li.ordinal), cl.Label, c, g, "holds whenever the loop body is left for the next iteration: "+cl.Src, head.Instrs[0].Pos(), cl.Props)
			}
		}
	}
	for ph, v := range saved {
		f.vals[ph] = v
	}
	if f.top {
		for _, k := range li.mods {
			if g := f.frameGoal(k, f.out[from]); g != "" {
				e.oblige(fmt.Sprintf("loop%d.preserved", li.ordinal), "frame."+k, c, g, "function frame preserved by the loop body for "+k, head.Instrs[0].Pos(), nil)
			}
		}
	}
	for _, k := range li.mods {
		if g := f.lockStable(k, li, f.out[from]); g != "" {
			e.oblige(fmt.Sprintf("loop%d.preserved", li.ordinal), "locks."+k, c, g, "each iteration releases the locks it takes ("+k+")", head.Instrs[0].Pos(), nil)
		}
	}
}

// lockStable: lock component k has, for every object allocated on loop entry, the value it had on loop entry.
func (f *Frame) lockStable(k string, li *loopInfo, st *State) string {
	e := f.e
	if k == "CH.pending" || k == "CH.nrecv" {
		// hand-off ghost state of channels other than the ones this function consumes is untouched by the loop
		now := e.comp(st, k, "")
		was := e.comp(li.entrySt, k, "")
		if now == was {
			return ""
		}
		var excl []string
		for ch := range f.tasks {
			excl = append(excl, not(eq("r!k", ch)))
		}
		sort.Strings(excl)
		return fmt.Sprintf("(forall ((r!k Int)) (! (=> %s (= (select %s r!k) (select %s r!k))) :pattern ((select %s r!k))))", and(excl...), now, was, now)
	}
	if !(strings.HasPrefix(k, "LW.") || strings.HasPrefix(k, "LR.")) {
		return ""
	}
	now := e.comp(st, k, "")
	was := e.comp(li.entrySt, k, "")
	if now == was {
		return ""
	}
	a := e.comp(li.entrySt, "alloc", arrSort(sBool))
	return fmt.Sprintf("(forall ((r!k Int)) (! (=> (select %s r!k) (= (select %s r!k) (select %s r!k))) :pattern ((select %s r!k))))", a, now, was, now)
}

func (f *Frame) loopInvariants(li *loopInfo) []*Clause {
	if f.fc == nil {
		f.e.fail("%s: loop %d in a function without contract (cannot inline functions with loops)", f.fn.Name(), li.ordinal)
	}
	return f.fc.Loops[li.ordinal]
}


// ---- blocks and instructions ----

func (f *Frame) block(b *ssa.BasicBlock) {
	for _, ins := range b.Instrs {
		if f.pc == "false" {
			return
		}
		f.instr(ins)
	}
}

func (f *Frame) set(v ssa.Value, x *Value) {
	if x.Type == nil {
		x.Type = v.Type()
	}
	f.vals[v] = x
}

func (f *Frame) nopanic() bool { return f.top && f.fc != nil && f.fc.NoPanic }

func (f *Frame) safety(kind, goal, desc string, pos token.Pos) {
	if f.nopanic() {
		f.e.oblige(kind, "", f.pc, goal, desc, pos, nil)
	}
}

func (f *Frame) instr(ins ssa.Instruction) {
	e := f.e
	switch i := ins.(type) {
	case *ssa.DebugRef:
	case *ssa.Phi:
		// defined by mergePreds/enterLoop
	case *ssa.Alloc:
		el := i.Type().(*types.Pointer).Elem()
		r := e.allocRef(f.st, f.pc, f.id+"."+i.Name())
		e.zeroInit(f.st, r, el)
		if _, isS := el.Underlying().(*types.Struct); (!isS || isTimeTime(el)) && cellIsPrivate(i) {
			if _, isA := el.Underlying().(*types.Array); !isA {
				if e.localCells == nil {
					e.localCells = map[string][]string{}
				}
				cn := e.cellComp(el)
				e.localCells[cn] = append(e.localCells[cn], r)
				if e.cellAlloc == nil {
					e.cellAlloc = map[string]*ssa.Alloc{}
				}
				e.cellAlloc[r] = i
				if e.cellBlk == nil {
					e.cellBlk = map[string]*ssa.BasicBlock{}
				}
				e.cellBlk[r] = e.curBlk
			}
		}
		f.set(i, term(r, sInt, i.Type()))
	case *ssa.FieldAddr:
		x := f.val(i.X)
		sT, s := derefStruct(i.X.Type())
		_ = sT
		l := e.ptrLoc(x)
		if x.Loc == nil {
			f.safety("nil", not(eq(x.T, "0")), "nil dereference", i.Pos())
		}
		f.set(i, &Value{Loc: e.fieldLoc(l, s.Field(i.Field)), Type: i.Type()})
	case *ssa.Field:
		x := f.val(i.X)
		sT, s := derefStruct(i.X.Type())
		if isOpaqueStruct(i.X.Type()) {
			e.fail("field of opaque struct %v", i.X.Type())
		}
		ss := e.sorts.structSortOf(sT, s)
		fl := s.Field(i.Field)
		f.set(i, term(e.fieldOf(ss, i.Field, x.T), ss.Fields[i.Field].Sort, fl.Type()))
	case *ssa.IndexAddr:
		x := f.val(i.X)
		idx := f.val(i.Index)
		switch u := i.X.Type().Underlying().(type) {
		case *types.Slice:
			f.safety("bounds", and("(<= 0 "+idx.T+")", "(< "+idx.T+" (slen "+x.T+"))"), "index in range", i.Pos())
			f.set(i, &Value{Loc: &Loc{Comp: e.elemComp(u.Elem()), Idx: []string{app("sarr", x.T), app("idx", x.T, idx.T)}, Type: u.Elem(), Root: u.Elem()}, Type: i.Type(), Guard: x.Guard})
		case *types.Pointer:
			a := u.Elem().Underlying().(*types.Array)
			if x.Loc != nil {
				e.fail("index of array inside struct not supported")
			}
			f.safety("bounds", and("(<= 0 "+idx.T+")", fmt.Sprintf("(< %s %d)", idx.T, a.Len())), "index in range", i.Pos())
			f.set(i, &Value{Loc: &Loc{Comp: e.elemComp(a.Elem()), Idx: []string{x.T, idx.T}, Type: a.Elem(), Root: a.Elem()}, Type: i.Type()})
		default:
			e.fail("IndexAddr on %v", i.X.Type())
		}
	case *ssa.Index:
		x := f.val(i.X)
		idx := f.val(i.Index)
		switch u := i.X.Type().Underlying().(type) {
		case *types.Array:
			f.set(i, term(sel(x.T, idx.T), e.sorts.sortOf(u.Elem()), u.Elem()))
		case *types.Basic: // string
			f.safety("bounds", and("(<= 0 "+idx.T+")", "(< "+idx.T+" (s.len "+x.T+"))"), "string index in range", i.Pos())
			f.set(i, term(app("s.at", x.T, idx.T), sInt, i.Type()))
		default:
			e.fail("Index on %v", i.X.Type())
		}
	case *ssa.UnOp:
		f.unop(i)
	case *ssa.Store:
		addr := f.val(i.Addr)
		v := f.val(i.Val)
		l := e.ptrLoc(addr)
		if addr.Loc == nil {
			f.safety("nil", not(eq(addr.T, "0")), "nil dereference", i.Pos())
		}
		if v.Fn != nil && len(v.Free) == 0 {
			// a plain function (no captured variables) stored in a variable: its identity is a number; a later call
			// through the loaded value is a dynamic call (havoc or `:dyn` contract), which is sound
			v = term(fmt.Sprint(e.fnTag(v.Fn)), sInt, v.Type)
		}
		if v.Loc != nil || v.Fn != nil {
			e.fail("%s: storing a static pointer/function value into the heap is outside the subset (%s)", f.fn.Name(), i)
		}
		if g := f.guardOf(l); g != nil {
			f.guardAccess(g, true, "", i.Pos())
		} else if addr.Guard != nil {
			f.guardAccess(addr.Guard, true, " (element)", i.Pos())
		}
		e.storeLoc(f.st, l, v)
	case *ssa.BinOp:
		f.set(i, f.binop(i.Op, f.val(i.X), f.val(i.Y), i.Type(), i.Pos()))
	case *ssa.Convert:
		f.set(i, f.convert(f.val(i.X), i.X.Type(), i.Type()))
	case *ssa.ChangeType:
		x := f.val(i.X)
		nv := *x
		nv.Type = i.Type()
		f.set(i, &nv)
	case *ssa.ChangeInterface:
		x := f.val(i.X)
		nv := *x
		nv.Type = i.Type()
		f.set(i, &nv)
	case *ssa.MakeInterface:
		f.set(i, f.makeInterface(f.val(i.X), i.X.Type(), i.Type()))
	case *ssa.TypeAssert:
		f.typeAssert(i)
	case *ssa.Extract:
		t := f.val(i.Tuple)
		if t.Tuple == nil {
			e.fail("extract from non-tuple %v", t)
		}
		f.vals[i] = t.Tuple[i.Index]
	case *ssa.Slice:
		f.sliceOp(i)
	case *ssa.MakeSlice:
		ln := f.val(i.Len)
		cp := f.val(i.Cap)
		el := i.Type().Underlying().(*types.Slice).Elem()
		a := e.allocRef(f.st, f.pc, f.id+"."+i.Name()+".arr")
		cn := e.elemComp(el)
		c := e.comp(f.st, cn, arr2Sort(e.sorts.sortOf(el)))
		e.setComp(f.st, cn, store(c, a, fmt.Sprintf("((as const (Array Int %s)) %s)", e.sorts.sortOf(el), e.sorts.zero(el))))
		f.safety("bounds", and("(<= 0 "+ln.T+")", "(<= "+ln.T+" "+cp.T+")"), "makeslice len/cap", i.Pos())
		f.set(i, term(app("mk-slice", a, "0", ln.T, cp.T), sSlice, i.Type()))
	case *ssa.MakeMap:
		mt := i.Type().Underlying().(*types.Map)
		r := e.allocRef(f.st, f.pc, f.id+"."+i.Name())
		dn, vn, ln := e.mapComps(mt)
		ks, vs := e.sorts.sortOf(mt.Key()), e.sorts.sortOf(mt.Elem())
		e.setComp(f.st, dn, store(e.comp(f.st, dn, arrSort(arrSortK(ks, sBool))), r, fmt.Sprintf("((as const (Array %s Bool)) false)", ks)))
		e.setComp(f.st, vn, store(e.comp(f.st, vn, arrSort(arrSortK(ks, vs))), r, fmt.Sprintf("((as const (Array %s %s)) %s)", ks, vs, e.sorts.zero(mt.Elem()))))
		e.setComp(f.st, ln, store(e.comp(f.st, ln, arrSort(sInt)), r, "0"))
		f.set(i, term(r, sInt, i.Type()))
		if f.top && mapIsPrivate(i) {
			// a map that never leaves this function (only indexed, updated, ranged over, len/delete): a callee cannot
			// reach it, so a call's havoc leaves its entries alone (loop havoc still applies: cellAlloc has no entry)
			if e.localCells == nil {
				e.localCells = map[string][]string{}
			}
			if e.cellBlk == nil {
				e.cellBlk = map[string]*ssa.BasicBlock{}
			}
			for _, cn := range []string{dn, vn, ln} {
				e.localCells[cn] = append(e.localCells[cn], r)
			}
			e.cellBlk[r] = i.Block()
		}
	case *ssa.MakeChan:
		r := e.allocRef(f.st, f.pc, f.id+"."+i.Name())
		f.chanInit(r)
		f.set(i, term(r, sInt, i.Type()))
	case *ssa.MapUpdate:
		f.guardAccess(f.val(i.Map).Guard, true, " (map entry)", i.Pos())
		f.mapUpdate(f.val(i.Map), f.val(i.Key), f.val(i.Value), i.Map.Type())
	case *ssa.Lookup:
		f.guardAccess(f.val(i.X).Guard, false, " (map entry)", i.Pos())
		f.lookup(i)
	case *ssa.Range:
		f.guardAccess(f.val(i.X).Guard, false, " (range)", i.Pos())
		f.rangeInit(i)
	case *ssa.Next:
		if it := f.val(i.Iter); it != nil && it.Iter != nil && it.Iter.Map != nil {
			f.guardAccess(it.Iter.Map.Guard, false, " (range step)", i.Pos())
		}
		f.next(i)
	case *ssa.MakeClosure:
		fn := i.Fn.(*ssa.Function)
		v := &Value{Fn: fn, Type: i.Type()}
		for _, b := range i.Bindings {
			v.Free = append(v.Free, f.val(b))
		}
		f.vals[i] = v
	case *ssa.Call:
		res := f.call(&i.Call, i, i.Pos())
		if res != nil {
			f.vals[i] = res
		}
	case *ssa.Defer:
		d := deferRec{call: i, cond: f.pc}
		for _, a := range i.Call.Args {
			d.args = append(d.args, f.val(a))
		}
		if !i.Call.IsInvoke() {
			if _, isB := i.Call.Value.(*ssa.Builtin); !isB {
				d.fnVal = f.val(i.Call.Value)
			}
		}
		f.defers = append(f.defers, d)
	case *ssa.RunDefers:
		f.runDefers()
	case *ssa.Go:
		f.goStmt(i)
	case *ssa.Send:
		if f.top && !f.dry && f.fc != nil && len(f.fc.Asserts) > 0 {
			f.siteAsserts("send", i.Pos(), f.val(i.Chan), f.val(i.X)) // `assert before.send:` arg0 = channel, arg1 = value
		}
		f.send(f.val(i.Chan), f.val(i.X), i.Pos())
	case *ssa.Select:
		f.selectStmt(i)
	case *ssa.Return:
		var rs []*Value
		for _, r := range i.Results {
			rs = append(rs, f.val(r))
		}
		f.rets = append(f.rets, retRec{pc: f.pc, results: rs, st: f.st.clone(), pos: i.Pos(), blk: f.cur})
		f.pc = "false"
	case *ssa.Panic:
		if f.nopanic() {
			e.oblige("panic", "", f.pc, "false", "explicit panic is unreachable", i.Pos(), nil)
		}
		f.pc = "false"
	case *ssa.If, *ssa.Jump:
	default:
		e.fail("%s: unsupported instruction %T: %s", f.fn.Name(), ins, ins)
	}
}

func arrSortK(k, v string) string { return "(Array " + k + " " + v + ")" }

func (f *Frame) unop(i *ssa.UnOp) {
	e := f.e
	x := f.val(i.X)
	switch i.Op {
	case token.MUL: // load
		l := e.ptrLoc(x)
		if x.Loc == nil {
			f.safety("nil", not(eq(x.T, "0")), "nil dereference", i.Pos())
		}
		for _, nr := range e.noRead {
			if nr.comp == l.Comp && !f.dry {
				e.oblige("readframe", strings.TrimPrefix(nr.comp, "H."), f.pc, not(eq(l.Idx[0], nr.idx)),
					"the function does not read "+nr.src+" (read frame: exported values must come from the label set being formatted)", i.Pos(), nil)
			}
		}
		g := f.guardOf(l)
		if g == nil && x.Guard != nil {
			g = x.Guard // element of a slice that was loaded from a guarded field
		}
		f.guardAccess(g, false, "", i.Pos())
		v := e.load(f.st, l)
		v = term(e.define(f.id+"."+i.Name(), v.Sort, v.T), v.Sort, i.Type())
		e.assumeAllocated(f.st, f.pc, v)
		if gg := f.guardOf(l); gg != nil {
			switch i.Type().Underlying().(type) {
			case *types.Map, *types.Slice:
				v.Guard = gg
			}
		}
		f.vals[i] = v
	case token.NOT:
		f.set(i, term(not(x.T), sBool, i.Type()))
	case token.SUB:
		if x.Sort == sF64 {
			f.set(i, term(app("fp.neg", x.T), sF64, i.Type()))
		} else {
			f.set(i, term(app("-", x.T), sInt, i.Type()))
		}
	case token.XOR:
		f.set(i, term(app("bitnot", x.T), sInt, i.Type()))
	case token.ARROW:
		f.recv(i, x)
	default:
		e.fail("unsupported unary op %v", i.Op)
	}
}

func (f *Frame) binop(op token.Token, x, y *Value, rt types.Type, pos token.Pos) *Value {
	e := f.e
	rs := e.sorts.sortOf(rt)
	if x.Loc != nil || y.Loc != nil {
		// pointer comparisons against nil
		if op == token.EQL || op == token.NEQ {
			res := "false"
			if x.Loc != nil && y.Loc != nil && fmt.Sprint(x) == fmt.Sprint(y) {
				res = "true"
			}
			if op == token.NEQ {
				res = not(res)
			}
			return term(res, sBool, rt)
		}
		e.fail("binop on static pointer")
	}
	s := x.Sort
	switch op {
	case token.EQL, token.NEQ:
		var t string
		switch {
		case s == sF64:
			t = app("fp.eq", x.T, y.T)
		case s == sSlice:
			// only comparison with nil is legal Go
			other := y
			if isNilSliceTerm(x.T) {
				other = x
				x = y
			}
			_ = other
			t = eq(app("sarr", x.T), "0")
		default:
			t = eq(x.T, y.T)
		}
		if op == token.NEQ {
			t = not(t)
		}
		return term(t, sBool, rt)
	case token.LSS, token.LEQ, token.GTR, token.GEQ:
		var t string
		switch s {
		case sF64:
			t = app(map[token.Token]string{token.LSS: "fp.lt", token.LEQ: "fp.leq", token.GTR: "fp.gt", token.GEQ: "fp.geq"}[op], x.T, y.T)
		case sStr:
			lt := func(a, b string) string { return app("s.lt", a, b) }
			switch op {
			case token.LSS:
				t = lt(x.T, y.T)
			case token.GTR:
				t = lt(y.T, x.T)
			case token.LEQ:
				t = not(lt(y.T, x.T))
			case token.GEQ:
				t = not(lt(x.T, y.T))
			}
		default:
			t = app(op.String(), x.T, y.T)
		}
		return term(t, sBool, rt)
	}
	switch s {
	case sInt:
		switch op {
		case token.ADD:
			return term(app("+", x.T, y.T), rs, rt)
		case token.SUB:
			return term(app("-", x.T, y.T), rs, rt)
		case token.MUL:
			return term(app("*", x.T, y.T), rs, rt)
		case token.QUO:
			f.safety("divzero", not(eq(y.T, "0")), "integer division by zero", pos)
			return term(app("gdiv", x.T, y.T), rs, rt)
		case token.REM:
			f.safety("divzero", not(eq(y.T, "0")), "integer division by zero", pos)
			return term(app("gmod", x.T, y.T), rs, rt)
		case token.AND:
			return term(app("bitand", x.T, y.T), rs, rt)
		case token.OR:
			return term(app("bitor", x.T, y.T), rs, rt)
		case token.XOR:
			return term(app("bitxor", x.T, y.T), rs, rt)
		case token.SHL:
			return term(app("bitshl", x.T, y.T), rs, rt)
		case token.SHR:
			return term(app("bitshr", x.T, y.T), rs, rt)
		case token.AND_NOT:
			return term(app("bitandnot", x.T, y.T), rs, rt)
		}
	case sF64:
		// float arithmetic is uninterpreted (equal operands give equal results; no numeric facts): see DESIGN §3.3
		m := map[token.Token]string{token.ADD: "fadd", token.SUB: "fsub", token.MUL: "fmul", token.QUO: "fdiv"}
		if o, ok := m[op]; ok {
			e.note("float64 + - * / are uninterpreted functions")
			return term(app(o, x.T, y.T), rs, rt)
		}
	case sStr:
		if op == token.ADD {
			return term(app("s.app", x.T, y.T), rs, rt)
		}
	case sBool:
		switch op {
		case token.AND, token.LAND:
			return term(and(x.T, y.T), rs, rt)
		case token.OR, token.LOR:
			return term(or(x.T, y.T), rs, rt)
		}
	}
	e.fail("unsupported binop %v on sort %s", op, s)
	return nil
}

func isNilSliceTerm(t string) bool { return t == "(mk-slice 0 0 0 0)" }

func (f *Frame) convert(x *Value, from, to types.Type) *Value {
	e := f.e
	fs, ts := e.sorts.sortOf(from), e.sorts.sortOf(to)
	switch {
	case fs == ts && fs != sSlice:
		if fs == sInt {
			e.note("machine integers are treated as mathematical integers (conversions do not wrap)")
		}
		return term(x.T, ts, to)
	case fs == sInt && ts == sF64:
		return term(app("i2f", x.T), sF64, to)
	case fs == sF64 && ts == sInt:
		return term(app("f2i", x.T), sInt, to)
	case fs == sSlice && ts == sStr: // string([]byte)
		el := from.Underlying().(*types.Slice).Elem()
		c := e.comp(f.st, e.elemComp(el), arr2Sort(sInt))
		return term(app("bytesN", sel(c, app("sarr", x.T)), app("soff", x.T), app("slen", x.T)), sStr, to)
	case fs == sStr && ts == sSlice: // []byte(string)
		el := to.Underlying().(*types.Slice).Elem()
		a := e.allocRef(f.st, f.pc, f.id+".conv.arr")
		cn := e.elemComp(el)
		c := e.comp(f.st, cn, arr2Sort(sInt))
		na := e.declare("convarr", arrSort(sInt))
		ln := app("s.len", x.T)
		e.assume("true", eq(app("bytesN", na, "0", ln), x.T))
		e.setComp(f.st, cn, store(c, a, na))
		return term(app("mk-slice", a, "0", ln, ln), sSlice, to)
	case fs == sInt && ts == sStr: // string(rune)
		return term(app("rune2str", x.T), sStr, to)
	}
	e.fail("unsupported conversion %v -> %v", from, to)
	return nil
}

func (f *Frame) makeInterface(x *Value, from, to types.Type) *Value {
	e := f.e
	tag := fmt.Sprint(e.sorts.tagOf(from))
	if x.Loc != nil {
		e.fail("%s: static pointer converted to interface", f.fn.Name())
	}
	if x.Fn != nil {
		return term(app("AOpq", tag, "0"), sAny, to)
	}
	switch e.sorts.sortOf(from) {
	case sInt:
		switch from.Underlying().(type) {
		case *types.Pointer, *types.Map, *types.Chan, *types.Signature:
			return term(app("ARef", tag, x.T), sAny, to)
		}
		if isOpaqueStruct(from) {
			return term(app("AOpq", tag, x.T), sAny, to)
		}
		return term(app("AInt", tag, x.T), sAny, to)
	case sF64:
		return term(app("AF64", tag, x.T), sAny, to)
	case sStr:
		return term(app("AStr", tag, x.T), sAny, to)
	case sBool:
		return term(app("ABool", tag, x.T), sAny, to)
	case sAny:
		return term(x.T, sAny, to)
	case sSlice:
		return term(app("AOpq", tag, app("sarr", x.T)), sAny, to)
	}
	// struct values: boxed through an injective encoding enc.S : S -> Int (dec.S is its inverse), so that two
	// interface values holding equal structs are equal and the struct can be recovered
	if ss := e.sorts.sortOf(from); strings.HasPrefix(ss, "|S.") {
		e.sorts.boxed[ss] = true
		return term(app("AOpq", tag, app(boxEnc(ss), x.T)), sAny, to)
	}
	return term(app("AOpq", tag, e.declare("opq", sInt)), sAny, to)
}

// unwrapAny extracts the payload of an interface value as Go type t.
func (e *Encoder) unwrapAny(x string, t types.Type) *Value {
	switch e.sorts.sortOf(t) {
	case sInt:
		switch t.Underlying().(type) {
		case *types.Pointer, *types.Map, *types.Chan, *types.Signature:
			return term(app("aref", x), sInt, t)
		}
		if isOpaqueStruct(t) {
			return term(app("aopq", x), sInt, t)
		}
		return term(app("aint", x), sInt, t)
	case sF64:
		return term(app("af64", x), sF64, t)
	case sStr:
		return term(app("astr", x), sStr, t)
	case sBool:
		return term(app("abool", x), sBool, t)
	case sAny:
		return term(x, sAny, t)
	}
	if ss := e.sorts.sortOf(t); strings.HasPrefix(ss, "|S.") {
		e.sorts.boxed[ss] = true
		return term(app(boxDec(ss), app("aopq", x)), ss, t)
	}
	e.fail("cannot unwrap interface value as %v", t)
	return nil
}

func (e *Encoder) anyIs(x string, t types.Type) string {
	if _, isIface := t.Underlying().(*types.Interface); isIface {
		// closed interface: exactly its listed implementations
		if impls, ok := e.ct.Closed[namedPathShort(t)]; ok {
			var alts []string
			for _, tn := range impls {
				if it := e.lookupType(tn, nil); it != nil {
					alts = append(alts, e.anyIs(x, it))
				}
			}
			return or(alts...)
		}
		return not(eq(x, "ANil"))
	}
	tag := fmt.Sprint(e.sorts.tagOf(t))
	var tester string
	switch e.sorts.sortOf(t) {
	case sInt:
		switch t.Underlying().(type) {
		case *types.Pointer, *types.Map, *types.Chan, *types.Signature:
			tester = "ARef"
		default:
			if isOpaqueStruct(t) {
				tester = "AOpq"
			} else {
				tester = "AInt"
			}
		}
	case sF64:
		tester = "AF64"
	case sStr:
		tester = "AStr"
	case sBool:
		tester = "ABool"
	default:
		tester = "AOpq"
	}
	if m := shapedAnyRe.FindStringSubmatch(x); m != nil {
		// a value of syntactically known dynamic type (see shapeTypeGuard): the test folds
		if m[1] == tester && m[2] == tag {
			return "true"
		}
		return "false"
	}
	return and(app("(_ is "+tester+")", x), eq(app("tagof", x), tag))
}

var shapedAnyRe = regexp.MustCompile(`^\((ARef|AInt|AF64|AStr|ABool|AOpq) (\d+) `)

func (f *Frame) typeAssert(i *ssa.TypeAssert) {
	e := f.e
	x := f.val(i.X)
	ok := e.anyIs(x.T, i.AssertedType)
	var v *Value
	if _, isIface := i.AssertedType.Underlying().(*types.Interface); isIface {
		e.note("type assertion to interface type " + e.sorts.typeStr(i.AssertedType) + " succeeds for every non-nil value (method sets not modelled)")
		v = term(x.T, sAny, i.AssertedType)
	} else if e.sorts.sortOf(i.AssertedType) == sSlice || strings.HasPrefix(e.sorts.sortOf(i.AssertedType), "|S.") {
		v = f.freshOf(f.id+"."+i.Name(), i.AssertedType)
	} else {
		v = e.unwrapAny(x.T, i.AssertedType)
	}
	// heap well-formedness: a reference held in an interface value is an allocated object
	e.assumeAllocated(f.st, and(f.pc, ok), v)
	if i.CommaOk {
		okc := e.define(f.id+"."+i.Name()+".ok", sBool, ok)
		zero := e.sorts.zero(i.AssertedType)
		f.vals[i] = &Value{Type: i.Type(), Tuple: []*Value{term(ite(okc, v.T, zero), v.Sort, i.AssertedType), term(okc, sBool, types.Typ[types.Bool])}}
		return
	}
	f.safety("typeassert", ok, "type assertion succeeds", i.Pos())
	f.vals[i] = v
}

func (f *Frame) sliceOp(i *ssa.Slice) {
	e := f.e
	x := f.val(i.X)
	lo := "0"
	if i.Low != nil {
		lo = f.val(i.Low).T
	}
	switch u := i.X.Type().Underlying().(type) {
	case *types.Slice:
		hi := app("slen", x.T)
		if i.High != nil {
			hi = f.val(i.High).T
		}
		mx := app("scap", x.T)
		if i.Max != nil {
			mx = f.val(i.Max).T
		}
		f.safety("bounds", and("(<= 0 "+lo+")", "(<= "+lo+" "+hi+")", "(<= "+hi+" "+mx+")", "(<= "+mx+" (scap "+x.T+"))"), "slice bounds in range", i.Pos())
		t := app("mk-slice", app("sarr", x.T), app("+", app("soff", x.T), lo), app("-", hi, lo), app("-", mx, lo))
		sv := term(e.define(f.id+"."+i.Name(), sSlice, t), sSlice, i.Type())
		sv.Guard = x.Guard
		f.set(i, sv)
	case *types.Basic: // string
		hi := app("s.len", x.T)
		if i.High != nil {
			hi = f.val(i.High).T
		}
		f.safety("bounds", and("(<= 0 "+lo+")", "(<= "+lo+" "+hi+")", "(<= "+hi+" (s.len "+x.T+"))"), "string slice bounds in range", i.Pos())
		f.set(i, term(app("s.sub", x.T, lo, hi), sStr, i.Type()))
	case *types.Pointer:
		a := u.Elem().Underlying().(*types.Array)
		hi := fmt.Sprint(a.Len())
		if i.High != nil {
			hi = f.val(i.High).T
		}
		if x.Loc != nil {
			e.fail("slicing array inside struct unsupported")
		}
		t := app("mk-slice", x.T, lo, subT(hi, lo), subT(fmt.Sprint(a.Len()), lo))
		f.set(i, term(t, sSlice, i.Type()))
	default:
		e.fail("Slice on %v", i.X.Type())
	}
}

// ---- maps ----

func (e *Encoder) mapComps(mt *types.Map) (dom, val, ln string) {
	base := "M." + e.sorts.typeStr(mt.Key()) + "." + e.sorts.typeStr(mt.Elem())
	return base + ".dom", base + ".val", base + ".len"
}

func (f *Frame) mapUpdate(m, k, v *Value, mtype types.Type) {
	e := f.e
	mt := mtype.Underlying().(*types.Map)
	dn, vn, ln := e.mapComps(mt)
	ks, vs := e.sorts.sortOf(mt.Key()), e.sorts.sortOf(mt.Elem())
	d := e.comp(f.st, dn, arrSort(arrSortK(ks, sBool)))
	vv := e.comp(f.st, vn, arrSort(arrSortK(ks, vs)))
	l := e.comp(f.st, ln, arrSort(sInt))
	had := sel(sel(d, m.T), k.T)
	e.setComp(f.st, ln, store(l, m.T, ite(had, sel(l, m.T), app("+", sel(l, m.T), "1"))))
	e.setComp(f.st, dn, store(d, m.T, store(sel(d, m.T), k.T, "true")))
	e.setComp(f.st, vn, store(vv, m.T, store(sel(vv, m.T), k.T, v.T)))
}

func (f *Frame) mapDelete(m, k *Value, mtype types.Type) {
	e := f.e
	mt := mtype.Underlying().(*types.Map)
	dn, _, ln := e.mapComps(mt)
	ks := e.sorts.sortOf(mt.Key())
	d := e.comp(f.st, dn, arrSort(arrSortK(ks, sBool)))
	l := e.comp(f.st, ln, arrSort(sInt))
	had := sel(sel(d, m.T), k.T)
	e.setComp(f.st, ln, store(l, m.T, ite(had, app("-", sel(l, m.T), "1"), sel(l, m.T))))
	e.setComp(f.st, dn, store(d, m.T, store(sel(d, m.T), k.T, "false")))
}

func (f *Frame) lookup(i *ssa.Lookup) {
	e := f.e
	x := f.val(i.X)
	k := f.val(i.Index)
	mt, isMap := i.X.Type().Underlying().(*types.Map)
	if !isMap { // string index
		f.set(i, term(app("s.at", x.T, k.T), sInt, i.Type()))
		return
	}
	dn, vn, _ := e.mapComps(mt)
	ks, vs := e.sorts.sortOf(mt.Key()), e.sorts.sortOf(mt.Elem())
	d := e.comp(f.st, dn, arrSort(arrSortK(ks, sBool)))
	vv := e.comp(f.st, vn, arrSort(arrSortK(ks, vs)))
	ok := e.define(f.id+"."+i.Name()+".ok", sBool, and(not(eq(x.T, "0")), sel(sel(d, x.T), k.T)))
	val := term(e.define(f.id+"."+i.Name()+".v", vs, ite(ok, sel(sel(vv, x.T), k.T), e.sorts.zero(mt.Elem()))), vs, mt.Elem())
	e.assumeAllocated(f.st, f.pc, val)
	switch mt.Elem().Underlying().(type) {
	case *types.Slice, *types.Map:
		val.Guard = x.Guard // a list or map stored in a guarded map is covered by the same lock
	}
	if i.CommaOk {
		f.vals[i] = &Value{Type: i.Type(), Tuple: []*Value{val, term(ok, sBool, types.Typ[types.Bool])}}
	} else {
		f.vals[i] = val
	}
}

func (f *Frame) rangeInit(i *ssa.Range) {
	e := f.e
	x := f.val(i.X)
	if _, ok := i.X.Type().Underlying().(*types.Map); !ok {
		e.fail("%s: range over string is outside the subset", f.fn.Name())
	}
	mt := i.X.Type().Underlying().(*types.Map)
	ks := e.sorts.sortOf(mt.Key())
	seen := "ITER." + f.id + "." + i.Name()
	e.comp(f.st, seen, arrSortK(ks, sBool))
	e.setComp(f.st, seen, fmt.Sprintf("((as const (Array %s Bool)) false)", ks))
	f.vals[i] = &Value{Type: i.Type(), Iter: &mapIter{Map: x, Seen: seen, Kind: "map"}}
}

func (f *Frame) next(i *ssa.Next) {
	e := f.e
	it := f.val(i.Iter)
	if it.Iter == nil {
		e.fail("Next on non-iterator")
	}
	m := it.Iter.Map
	mt := m.Type.Underlying().(*types.Map)
	dn, vn, _ := e.mapComps(mt)
	ks, vs := e.sorts.sortOf(mt.Key()), e.sorts.sortOf(mt.Elem())
	d := e.comp(f.st, dn, arrSort(arrSortK(ks, sBool)))
	vv := e.comp(f.st, vn, arrSort(arrSortK(ks, vs)))
	seen := e.comp(f.st, it.Iter.Seen, arrSortK(ks, sBool))
	ok := e.declare(f.id+"."+i.Name()+".ok", sBool)
	k := e.declare(f.id+"."+i.Name()+".k", ks)
	dom := sel(d, m.T)
	e.assume(f.pc, implies(ok, and(sel(dom, k), not(sel(seen, k)))))
	e.assume(f.pc, implies(not(ok), fmt.Sprintf("(forall ((k %s)) (! (=> (select %s k) (select %s k)) :pattern ((select %s k))))", ks, dom, seen, dom)))
	e.assume(f.pc, implies(eq(m.T, "0"), not(ok)))
	v := term(e.define(f.id+"."+i.Name()+".v", vs, sel(sel(vv, m.T), k)), vs, mt.Elem())
	switch mt.Elem().Underlying().(type) {
	case *types.Slice, *types.Map:
		v.Guard = m.Guard
	}
	e.assumeAllocated(f.st, and(f.pc, ok), v)
	e.setComp(f.st, it.Iter.Seen, ite(ok, store(seen, k, "true"), seen))
	f.vals[i] = &Value{Type: i.Type(), Tuple: []*Value{term(ok, sBool, types.Typ[types.Bool]), term(k, ks, mt.Key()), v}}
}

// ---- defers ----

func (f *Frame) runDefers() {
	for k := len(f.defers) - 1; k >= 0; k-- {
		d := f.defers[k]
		if d.cond == "false" {
			continue
		}
		// execute the deferred call under the condition that the defer statement was reached
		savedPC := f.pc
		before := f.st.clone()
		guard := "true"
		if f.cur == nil || !d.call.Block().Dominates(f.cur) {
			guard = d.cond
		}
		f.pc = and(savedPC, guard)
		f.callCommon(&d.call.Call, d.args, d.fnVal, nil, d.call.Pos())
		if guard != "true" {
			// merge: effects only if guard
			for k2, nv := range f.st.heap {
				ov := f.e.comp(before, k2, "")
				if ov != nv {
					f.st.heap[k2] = f.e.define(k2, f.e.compSort[k2], ite(guard, nv, ov))
				}
			}
		}
		f.pc = savedPC
	}
}


// localLatest resolves a source-level local name on the back edge from `from` of loop li: the value of its most recent
// definition executed on the path taken (definitions outside the loop count as executed; among the definitions inside
// the loop body a later one, in block order, overrides an earlier one when its block was reached in this iteration).
// The second result is the condition under which any definition inside the loop body was executed in this iteration
// ("true" for a definition that dominates the back edge).
func (f *Frame) localLatest(name string, from *ssa.BasicBlock, li *loopInfo, st *State) (*Value, string) {
	type cand struct {
		v     ssa.Value
		blk   *ssa.BasicBlock
		order int
		addr  bool
	}
	idx := map[*ssa.BasicBlock]int{}
	for i, b := range f.order {
		idx[b] = i
	}
	var cs []cand
	var later types.Type
	anc := f.e.ancestorsOf(from)
	seen := map[ssa.Value]bool{}
	for _, blk := range f.fn.Blocks {
		for k, ins := range blk.Instrs {
			d, ok := ins.(*ssa.DebugRef)
			if !ok {
				continue
			}
			id, ok := d.Expr.(*ast.Ident)
			if !ok || id.Name != name || seen[d.X] {
				continue
			}
			if _, defd := f.vals[d.X]; !defd {
				if _, isC := d.X.(*ssa.Const); !isC {
					if _, isP := d.X.(*ssa.Parameter); !isP {
						if _, isF := d.X.(*ssa.FreeVar); !isF {
							// a definition in a block that comes later in the iteration: not executed on any path to this back edge
							if later == nil && !d.IsAddr {
								later = d.X.Type()
							}
							continue
						}
					}
				}
			}
			inLoop := li.body[blk] || blk == li.head
			if !inLoop && !blk.Dominates(from) {
				continue
			}
			if _, reached := f.reach[blk]; inLoop && !reached {
				continue
			}
			if inLoop && !anc[blk] {
				// a definition on another branch: not executed on any path to this back edge
				if later == nil && !d.IsAddr {
					later = d.X.Type()
				}
				continue
			}
			seen[d.X] = true
			cs = append(cs, cand{d.X, blk, idx[blk]*100000 + k, d.IsAddr})
		}
	}
	if os.Getenv("GOVC_DEBUG_LATEST") != "" {
		fmt.Fprintf(os.Stderr, "localLatest %s from %s: %d candidates, body=%d\n", name, from, len(cs), len(li.body))
	}
	if len(cs) == 0 {
		if later != nil {
			return f.freshOf(f.id+"."+name+".undef", later), "false"
		}
		return nil, "false"
	}
	sort.Slice(cs, func(i, j int) bool { return cs[i].order < cs[j].order })
	var cur *Value
	def := "false"
	for _, c := range cs {
		v := f.val(c.v)
		if c.addr {
			// an addressable variable (captured, or its address is taken): its cell holds the current value
			return f.e.load(st, f.e.ptrLoc(v)), "true"
		}
		inLoop := li.body[c.blk] || c.blk == li.head
		cond := "true"
		if inLoop && !c.blk.Dominates(from) {
			cond = f.reach[c.blk]
		}
		if inLoop {
			def = or(def, cond)
		}
		if cur == nil || cond == "true" {
			cur = v
			continue
		}
		if cur.Sort != v.Sort {
			continue
		}
		m := *v
		m.T = ite(cond, v.T, cur.T)
		m.Loc = nil
		cur = &m
	}
	return cur, def
}
