package main

import (
	"fmt"
	"strings"
)

// The "trig" query variant (DESIGN §3.7): an equivalent rewriting of an obligation's SMT text that makes quantifier
// instantiation deterministic for index-quantified facts.
//
//   - every assumed, un-patterned `forall` whose Int binders are used as slice indices (second argument of `idx`)
//     gets the pattern (TRIG v) for those binders (TRIG is a fresh uninterpreted predicate);
//   - universally quantified Int variables in positive position of the goal are skolemised by hand, and
//     TRIG sk, TRIG (sk+1), TRIG (sk-1) are asserted for each skolem constant.
//
// Adding patterns, skolemising the goal and asserting facts about a fresh predicate keep the query equisatisfiable
// (TRIG := true is a model of the added facts), so `unsat` on the variant proves the obligation.  A `sat`/`unknown`
// answer on it means nothing (patterns restrict instantiation) and is ignored by the portfolio.

type tsx struct {
	atom string
	kids []*tsx
	list bool
}

func parseTsx(s string) []*tsx {
	var stack [][]*tsx
	cur := []*tsx{}
	i := 0
	for i < len(s) {
		c := s[i]
		switch {
		case c == '(':
			stack = append(stack, cur)
			cur = []*tsx{}
			i++
		case c == ')':
			n := &tsx{list: true, kids: cur}
			if len(stack) == 0 {
				return nil
			}
			cur = stack[len(stack)-1]
			stack = stack[:len(stack)-1]
			cur = append(cur, n)
			i++
		case c == ' ' || c == '\n' || c == '\t' || c == '\r':
			i++
		case c == ';':
			for i < len(s) && s[i] != '\n' {
				i++
			}
		case c == '|':
			j := i + 1
			for j < len(s) && s[j] != '|' {
				j++
			}
			cur = append(cur, &tsx{atom: s[i : j+1]})
			i = j + 1
		case c == '"':
			j := i + 1
			for j < len(s) {
				if s[j] == '"' {
					if j+1 < len(s) && s[j+1] == '"' {
						j += 2
						continue
					}
					break
				}
				j++
			}
			cur = append(cur, &tsx{atom: s[i : j+1]})
			i = j + 1
		default:
			j := i
			for j < len(s) && !strings.ContainsRune("() \n\t\r", rune(s[j])) {
				j++
			}
			cur = append(cur, &tsx{atom: s[i:j]})
			i = j
		}
	}
	if len(stack) != 0 {
		return nil
	}
	return cur
}

func (n *tsx) String() string {
	var b strings.Builder
	n.write(&b)
	return b.String()
}

func (n *tsx) write(b *strings.Builder) {
	if !n.list {
		b.WriteString(n.atom)
		return
	}
	b.WriteByte('(')
	for i, k := range n.kids {
		if i > 0 {
			b.WriteByte(' ')
		}
		k.write(b)
	}
	b.WriteByte(')')
}

func (n *tsx) head() string {
	if n.list && len(n.kids) > 0 && !n.kids[0].list {
		return n.kids[0].atom
	}
	return ""
}

// usedAsIndex reports whether variable v occurs as the index argument of an idx term (possibly offset by a constant).
func usedAsIndex(n *tsx, v string) bool {
	if !n.list {
		return false
	}
	if n.head() == "idx" && len(n.kids) == 3 && mentions(n.kids[2], v) {
		return true
	}
	for _, k := range n.kids {
		if usedAsIndex(k, v) {
			return true
		}
	}
	return false
}

func mentions(n *tsx, v string) bool {
	if !n.list {
		return n.atom == v
	}
	for _, k := range n.kids {
		if mentions(k, v) {
			return true
		}
	}
	return false
}

func subst(n *tsx, m map[string]string) *tsx {
	if !n.list {
		if r, ok := m[n.atom]; ok {
			return &tsx{atom: r}
		}
		return n
	}
	// do not substitute under a binder that re-binds the name (names are unique in generated queries; be safe anyway)
	if h := n.head(); (h == "forall" || h == "exists") && len(n.kids) == 3 {
		m2 := map[string]string{}
		for k, v := range m {
			m2[k] = v
		}
		for _, b := range n.kids[1].kids {
			if b.list && len(b.kids) == 2 {
				delete(m2, b.kids[0].atom)
			}
		}
		m = m2
	}
	out := &tsx{list: true}
	for _, k := range n.kids {
		out.kids = append(out.kids, subst(k, m))
	}
	return out
}

type trigCtx struct {
	n      int
	decls  []string
	facts  []string
	change bool
}

// addPatterns rewrites assumed quantifiers (pos == true: the formula is asserted).
func (tc *trigCtx) addPatterns(n *tsx, pos bool) *tsx {
	if !n.list {
		return n
	}
	switch n.head() {
	case "forall", "exists":
		if len(n.kids) != 3 {
			return n
		}
		universal := (n.head() == "forall") == pos
		body := n.kids[2]
		if body.head() == "!" {
			return n // already patterned
		}
		nb := tc.addPatterns(body, pos)
		if universal {
			var pats []string
			for _, b := range n.kids[1].kids {
				if b.list && len(b.kids) == 2 && !b.kids[1].list && b.kids[1].atom == "Int" && usedAsIndex(body, b.kids[0].atom) {
					pats = append(pats, "(TRIG "+b.kids[0].atom+")")
				}
			}
			if len(pats) > 0 && len(pats) == len(n.kids[1].kids) { // a pattern must mention every bound variable
				tc.change = true
				wrapped := &tsx{list: true, kids: []*tsx{{atom: "!"}, nb, {atom: ":pattern"}, {atom: "(" + strings.Join(pats, " ") + ")"}}}
				return &tsx{list: true, kids: []*tsx{n.kids[0], n.kids[1], wrapped}}
			}
		}
		return &tsx{list: true, kids: []*tsx{n.kids[0], n.kids[1], nb}}
	case "not":
		if len(n.kids) == 2 {
			return &tsx{list: true, kids: []*tsx{n.kids[0], tc.addPatterns(n.kids[1], !pos)}}
		}
	case "=>":
		if len(n.kids) >= 3 {
			out := &tsx{list: true, kids: []*tsx{n.kids[0]}}
			for i, k := range n.kids[1:] {
				if i == len(n.kids)-2 {
					out.kids = append(out.kids, tc.addPatterns(k, pos))
				} else {
					out.kids = append(out.kids, tc.addPatterns(k, !pos))
				}
			}
			return out
		}
	case "and", "or", "!":
		out := &tsx{list: true, kids: []*tsx{n.kids[0]}}
		for _, k := range n.kids[1:] {
			out.kids = append(out.kids, tc.addPatterns(k, pos))
		}
		return out
	}
	return n // ite, =, let, terms: left alone (quantifiers under them keep solver-chosen triggers)
}

// skolemise removes universal quantifiers in positive position of a goal that is to be PROVED (pos == true).
func (tc *trigCtx) skolemise(n *tsx, pos bool) *tsx {
	if !n.list {
		return n
	}
	switch n.head() {
	case "forall", "exists":
		if len(n.kids) != 3 {
			return n
		}
		if (n.head() == "forall") != pos {
			return n
		}
		body := n.kids[2]
		if body.head() == "!" && len(body.kids) >= 2 {
			body = body.kids[1]
		}
		m := map[string]string{}
		for _, b := range n.kids[1].kids {
			if !(b.list && len(b.kids) == 2) {
				return n
			}
			tc.n++
			name := fmt.Sprintf("|sk!%d!%s|", tc.n, strings.Trim(b.kids[0].atom, "|"))
			tc.decls = append(tc.decls, fmt.Sprintf("(declare-const %s %s)", name, b.kids[1].String()))
			m[b.kids[0].atom] = name
			if !b.kids[1].list && b.kids[1].atom == "Int" && usedAsIndex(body, b.kids[0].atom) {
				tc.facts = append(tc.facts, fmt.Sprintf("(assert (TRIG %s))", name), fmt.Sprintf("(assert (TRIG (+ %s 1)))", name), fmt.Sprintf("(assert (TRIG (- %s 1)))", name))
			}
		}
		tc.change = true
		return tc.skolemise(subst(body, m), pos)
	case "not":
		if len(n.kids) == 2 {
			return &tsx{list: true, kids: []*tsx{n.kids[0], tc.skolemise(n.kids[1], !pos)}}
		}
	case "=>":
		if len(n.kids) >= 3 {
			out := &tsx{list: true, kids: []*tsx{n.kids[0]}}
			for i, k := range n.kids[1:] {
				if i == len(n.kids)-2 {
					out.kids = append(out.kids, tc.skolemise(k, pos))
				} else {
					out.kids = append(out.kids, k) // antecedents: left as they are (they become assumptions)
				}
			}
			return out
		}
	case "and":
		if pos { // proving a conjunction: each conjunct may get its own skolems
			out := &tsx{list: true, kids: []*tsx{n.kids[0]}}
			for _, k := range n.kids[1:] {
				out.kids = append(out.kids, tc.skolemise(k, pos))
			}
			return out
		}
	case "or":
		if pos {
			out := &tsx{list: true, kids: []*tsx{n.kids[0]}}
			for _, k := range n.kids[1:] {
				out.kids = append(out.kids, tc.skolemise(k, pos))
			}
			return out
		}
	}
	return n
}

// trigVariant returns the rewritten query, or "" when the rewriting does not apply (nothing to change, parse failure).
func trigVariant(q string) string {
	lines := strings.Split(q, "\n")
	goal := -1
	for i, l := range lines {
		if strings.HasPrefix(l, "(assert (not ") {
			goal = i
		}
	}
	if goal < 0 {
		return ""
	}
	tc := &trigCtx{}
	out := make([]string, 0, len(lines)+8)
	declAt := -1
	for i, l := range lines {
		if i == goal {
			forms := parseTsx(l)
			if len(forms) != 1 || forms[0].head() != "assert" || len(forms[0].kids) != 2 || forms[0].kids[1].head() != "not" {
				return ""
			}
			g := forms[0].kids[1].kids[1]
			// antecedents of the goal are assumptions: pattern them; the conclusion is skolemised
			g = tc.addPatterns(g, false)
			g = tc.skolemise(g, true)
			out = append(out, "@@SKOLEMS@@", "(assert (not "+g.String()+"))")
			continue
		}
		if strings.HasPrefix(l, "(assert ") && strings.Contains(l, "(forall ") || strings.Contains(l, "(exists ") && strings.HasPrefix(l, "(assert ") {
			forms := parseTsx(l)
			if len(forms) != 1 || len(forms[0].kids) != 2 {
				return ""
			}
			nf := tc.addPatterns(forms[0].kids[1], true)
			out = append(out, "(assert "+nf.String()+")")
			continue
		}
		if declAt < 0 && strings.HasPrefix(l, "(declare-fun idx ") {
			declAt = len(out)
		}
		out = append(out, l)
	}
	if !tc.change || declAt < 0 {
		return ""
	}
	res := make([]string, 0, len(out)+len(tc.decls)+len(tc.facts)+1)
	for i, l := range out {
		if i == declAt {
			res = append(res, "(declare-fun TRIG (Int) Bool)")
		}
		if l == "@@SKOLEMS@@" {
			res = append(res, tc.decls...)
			res = append(res, tc.facts...)
			continue
		}
		res = append(res, l)
	}
	return strings.Join(res, "\n")
}
