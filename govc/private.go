package main

import "golang.org/x/tools/go/ssa"

// cellIsPrivate: the variable cell is only loaded, stored, and captured by closures that are themselves only
// deferred or called directly in this function - so no other callee can reach it.
func cellIsPrivate(a *ssa.Alloc) bool {
	refs := a.Referrers()
	if refs == nil {
		return false
	}
	for _, r := range *refs {
		switch x := r.(type) {
		case *ssa.DebugRef:
		case *ssa.UnOp:
		case *ssa.Store:
			if x.Addr != a {
				return false // the address itself is stored somewhere
			}
		case *ssa.MakeClosure:
			mrefs := x.Referrers()
			if mrefs == nil {
				return false
			}
			for _, m := range *mrefs {
				switch y := m.(type) {
				case *ssa.DebugRef:
				case *ssa.Defer:
					if y.Call.Value != x {
						return false
					}
				case *ssa.Call:
					if y.Call.Value != x {
						return false
					}
				default:
					return false
				}
			}
		default:
			return false
		}
	}
	return true
}

// storedInBlocks: some block of the set stores to the variable cell (directly, or possibly through a closure that
// captures it and is called or deferred there).
func storedInBlocks(a *ssa.Alloc, blocks map[*ssa.BasicBlock]bool) bool {
	refs := a.Referrers()
	if refs == nil {
		return true
	}
	for _, r := range *refs {
		switch x := r.(type) {
		case *ssa.Store:
			if blocks[x.Block()] {
				return true
			}
		case *ssa.MakeClosure:
			if mrefs := x.Referrers(); mrefs != nil {
				for _, m := range *mrefs {
					if ins, ok := m.(ssa.Instruction); ok && blocks[ins.Block()] {
						if _, isDbg := m.(*ssa.DebugRef); !isDbg {
							return true
						}
					}
				}
			}
		}
	}
	return false
}

// mapIsPrivate: the freshly made map is only used by map instructions of this function (update, lookup, range,
// len, delete) - it is never passed to a call, stored, captured, returned or merged into another value.
func mapIsPrivate(m *ssa.MakeMap) bool {
	refs := m.Referrers()
	if refs == nil {
		return false
	}
	for _, r := range *refs {
		switch x := r.(type) {
		case *ssa.DebugRef:
		case *ssa.MapUpdate:
			if x.Map != m || x.Key == ssa.Value(m) || x.Value == ssa.Value(m) {
				return false
			}
		case *ssa.Lookup:
			if x.X != m {
				return false
			}
		case *ssa.Range:
		case *ssa.Call:
			b, ok := x.Call.Value.(*ssa.Builtin)
			if !ok || x.Call.IsInvoke() || (b.Name() != "len" && b.Name() != "delete") {
				return false
			}
		default:
			return false
		}
	}
	return true
}
