package main

import (
	"regexp"
	"strings"
)

var ordinalSuffix = regexp.MustCompile(`\.\d+$`)

// incidentalObligation: obligations whose existence depends on temporaries, inlining and the number of return
// points (frames per component, lock bookkeeping, bounds/nil checks, numbered repeats of a clause at further
// returns). They are always checked when generated, but their mere absence on an edited tree is not reported:
// only the first obligation of each labelled clause is pinned in obligations.lock.
func incidentalObligation(name string) bool {
	i := strings.Index(name, "#")
	if i < 0 {
		return false
	}
	k := name[i+1:]
	switch {
	case strings.HasPrefix(k, "frame."), strings.Contains(k, ".frame."), strings.Contains(k, ".locks."):
		return true
	case strings.HasPrefix(k, "lock."), strings.HasPrefix(k, "bounds"), strings.HasPrefix(k, "nil"), strings.HasPrefix(k, "chan."),
		strings.HasPrefix(k, "divzero"), strings.HasPrefix(k, "typeassert"), strings.HasPrefix(k, "pre."), strings.HasPrefix(k, "panic"):
		return true
	}
	return ordinalSuffix.MatchString(k)
}
