package main

import (
	"fmt"
	"go/token"
	"strings"
)

// siteAsserts checks the contract's `assert before.<callee>: expr` clauses at a call to <callee> in the function
// under contract. Names are the source-level variables in scope at the call.
func (f *Frame) siteAsserts(callee string, pos token.Pos, args ...*Value) {
	for _, cl := range f.fc.Asserts {
		if cl.Label != "before."+callee && !strings.HasPrefix(cl.Label, "before."+callee+".") {
			continue // `before.<callee>` or `before.<callee>.<name>` (several assertions at one callee)
		}
		env := f.contractEnv(f.st, f.entry)
		for k, a := range args { // the call's own arguments: arg0 is the receiver of a method call
			if a != nil {
				env.names[fmt.Sprintf("arg%d", k)] = a
			}
		}
		b := f.cur
		env.local = func(name string) *Value {
			f.siteMode = true
			defer func() { f.siteMode = false }()
			return f.localAt(name, b, f.st)
		}
		for _, g := range env.evalSplit(cl.Expr) {
			f.e.oblige("site", cl.Label, f.pc, g, "at the call to "+callee+": "+cl.Src, pos, cl.Props)
		}
	}
}
