package main

import (
	"fmt"
	"go/types"
	"regexp"
	"sort"
	"strconv"
	"strings"
)

// SMT sorts used by the encoding (see DESIGN.md §3.3).
const (
	sInt   = "Int"
	sBool  = "Bool"
	sF64   = "F64"
	sStr   = "Str"
	sAny   = "Any"
	sSlice = "Slice"
)

// prelude is emitted at the top of every query.
const prelude = `(set-logic ALL)
(define-sort F64 () (_ FloatingPoint 11 53))
(declare-datatypes ((Str 0)) (((snil) (scons (shd Int) (stl Str)))))
(declare-datatypes ((Slice 0)) (((mk-slice (sarr Int) (soff Int) (slen Int) (scap Int)))))
(declare-datatypes ((Any 0)) (((ANil) (AInt (atag Int) (aint Int)) (AF64 (ftag Int) (af64 F64)) (AStr (stag Int) (astr Str)) (ABool (btag Int) (abool Bool)) (ARef (rtag Int) (aref Int)) (AOpq (otag Int) (aopq Int)))))
(declare-fun idx (Slice Int) Int)
(assert (forall ((s Slice) (j Int)) (! (= (idx s j) (+ (soff s) j)) :pattern ((idx s j)))))
(define-fun tagof ((a Any)) Int (ite ((_ is AInt) a) (atag a) (ite ((_ is AF64) a) (ftag a) (ite ((_ is AStr) a) (stag a) (ite ((_ is ABool) a) (btag a) (ite ((_ is ARef) a) (rtag a) (ite ((_ is AOpq) a) (otag a) 0)))))))
`

// SortTable maps Go types to SMT sorts and records struct datatypes to declare.
type SortTable struct {
	structs   map[string]*structSort // SMT sort name -> info
	order     []string               // declaration order
	tags      map[string]int         // type string -> dynamic type tag
	tagNames  []string
	boxed     map[string]bool // struct sorts that occur inside interface values
	qualifier types.Qualifier
}

type structSort struct {
	Name   string
	Go     *types.Struct
	Fields []structField
}
type structField struct {
	Name string // go field name
	Acc  string // SMT accessor
	Sort string
	Type types.Type
}

func newSortTable() *SortTable {
	return &SortTable{structs: map[string]*structSort{}, tags: map[string]int{}, boxed: map[string]bool{},
		qualifier: func(p *types.Package) string { return shortPkg(p.Path()) }}
}

func (st *SortTable) typeStr(t types.Type) string { return types.TypeString(t, st.qualifier) }

func (st *SortTable) tagOf(t types.Type) int {
	s := st.typeStr(t)
	if id, ok := st.tags[s]; ok {
		return id
	}
	id := len(st.tags) + 1
	st.tags[s] = id
	st.tagNames = append(st.tagNames, s)
	return id
}

func isTimeTime(t types.Type) bool {
	if n, ok := t.(*types.Named); ok {
		o := n.Obj()
		return o.Pkg() != nil && o.Pkg().Path() == "time" && o.Name() == "Time"
	}
	return false
}

func namedPath(t types.Type) string {
	if n, ok := t.(*types.Named); ok {
		o := n.Obj()
		if o.Pkg() != nil {
			return o.Pkg().Path() + "." + o.Name()
		}
		return o.Name()
	}
	return ""
}

// opaqueStruct: foreign structs we never look inside (modelled only through ghost fields).
func isOpaqueStruct(t types.Type) bool {
	n, ok := t.(*types.Named)
	if !ok {
		return false
	}
	if _, ok := n.Underlying().(*types.Struct); !ok {
		return false
	}
	o := n.Obj()
	if o.Pkg() == nil {
		return false
	}
	return !strings.HasPrefix(o.Pkg().Path(), "github.com/google/mtail")
}

// sortOf returns the SMT sort of values of Go type t.
func (st *SortTable) sortOf(t types.Type) string {
	if isTimeTime(t) {
		return sInt
	}
	switch u := t.Underlying().(type) {
	case *types.Basic:
		switch {
		case u.Info()&types.IsBoolean != 0:
			return sBool
		case u.Info()&types.IsInteger != 0:
			return sInt
		case u.Info()&types.IsFloat != 0:
			return sF64
		case u.Info()&types.IsString != 0:
			return sStr
		case u.Kind() == types.UnsafePointer:
			return sInt
		case u.Kind() == types.UntypedNil:
			return sInt
		}
	case *types.Pointer, *types.Map, *types.Chan, *types.Signature:
		return sInt
	case *types.Slice:
		return sSlice
	case *types.Interface:
		return sAny
	case *types.Struct:
		if isOpaqueStruct(t) {
			return sInt
		}
		return st.structSortOf(t, u).Name
	case *types.Array:
		return fmt.Sprintf("(Array Int %s)", st.sortOf(u.Elem()))
	case *types.Tuple:
		return "TUPLE"
	}
	return sInt
}

func smtQuote(s string) string {
	s = strings.NewReplacer("|", "!", "\\", "/").Replace(s)
	return "|" + s + "|"
}

func (st *SortTable) structSortOf(t types.Type, u *types.Struct) *structSort {
	name := ""
	if n, ok := t.(*types.Named); ok {
		name = "S." + shortPkg(n.Obj().Pkg().Path()) + "." + n.Obj().Name()
	} else {
		name = "S.anon." + fmt.Sprint(len(st.structs)) // anonymous: identity by structure string
		key := st.typeStr(t)
		for _, ss := range st.structs {
			if ss.Go != nil && st.typeStr(ss.Go) == key && strings.HasPrefix(ss.Name, "|S.anon.") {
				return ss
			}
		}
	}
	name = smtQuote(name)
	if ss, ok := st.structs[name]; ok {
		return ss
	}
	ss := &structSort{Name: name, Go: u}
	st.structs[name] = ss // before recursion (no recursive value structs in Go anyway)
	for i := 0; i < u.NumFields(); i++ {
		f := u.Field(i)
		ss.Fields = append(ss.Fields, structField{Name: f.Name(), Acc: smtQuote(strings.Trim(name, "|") + "." + f.Name()),
			Sort: st.sortOf(f.Type()), Type: f.Type()})
	}
	st.order = append(st.order, name)
	return ss
}

func (ss *structSort) ctor() string { return smtQuote("mk." + strings.Trim(ss.Name, "|")) }

func (ss *structSort) field(name string) *structField {
	for i := range ss.Fields {
		if ss.Fields[i].Name == name {
			return &ss.Fields[i]
		}
	}
	return nil
}

// decls emits datatype declarations for all struct sorts (in dependency order).
func (st *SortTable) decls() string {
	var b strings.Builder
	for _, n := range st.order {
		ss := st.structs[n]
		fmt.Fprintf(&b, "(declare-datatypes ((%s 0)) (((%s", ss.Name, ss.ctor())
		for _, f := range ss.Fields {
			fmt.Fprintf(&b, " (%s %s)", f.Acc, f.Sort)
		}
		b.WriteString("))))\n")
		if st.boxed[ss.Name] {
			fmt.Fprintf(&b, "(declare-fun %s (%s) Int)\n(declare-fun %s (Int) %s)\n(assert (forall ((x %s)) (! (= (%s (%s x)) x) :pattern ((%s x)))))\n",
				boxEnc(ss.Name), ss.Name, boxDec(ss.Name), ss.Name, ss.Name, boxDec(ss.Name), boxEnc(ss.Name), boxEnc(ss.Name))
		}
	}
	// tag table as comment
	ids := make([]string, 0, len(st.tags))
	for s, id := range st.tags {
		ids = append(ids, fmt.Sprintf("; tag %d = %s", id, s))
	}
	sort.Strings(ids)
	for _, l := range ids {
		b.WriteString(l + "\n")
	}
	return b.String()
}

// zero returns the zero value term of a Go type.
func (st *SortTable) zero(t types.Type) string {
	if isTimeTime(t) {
		return timeZeroNs
	}
	switch u := t.Underlying().(type) {
	case *types.Basic:
		switch {
		case u.Info()&types.IsBoolean != 0:
			return "false"
		case u.Info()&types.IsInteger != 0:
			return "0"
		case u.Info()&types.IsFloat != 0:
			return "(_ +zero 11 53)"
		case u.Info()&types.IsString != 0:
			return "snil"
		}
		return "0"
	case *types.Slice:
		return "(mk-slice 0 0 0 0)"
	case *types.Interface:
		return "ANil"
	case *types.Struct:
		if isOpaqueStruct(t) {
			return "0"
		}
		ss := st.structSortOf(t, u)
		if len(ss.Fields) == 0 {
			return ss.ctor()
		}
		parts := []string{ss.ctor()}
		for _, f := range ss.Fields {
			parts = append(parts, st.zero(f.Type))
		}
		return "(" + strings.Join(parts, " ") + ")"
	case *types.Array:
		return fmt.Sprintf("((as const (Array Int %s)) %s)", st.sortOf(u.Elem()), st.zero(u.Elem()))
	}
	return "0"
}

// The zero time.Time is 0001-01-01T00:00:00Z = -62135596800 s relative to the Unix epoch.
const timeZeroNs = "(- 62135596800000000000)"

// strLit builds a Str term for a Go string constant.
func strLit(s string) string {
	if len(s) == 0 {
		return "snil"
	}
	var b strings.Builder
	for i := 0; i < len(s); i++ {
		fmt.Fprintf(&b, "(scons %d ", s[i])
	}
	b.WriteString("snil")
	b.WriteString(strings.Repeat(")", len(s)))
	return b.String()
}

func intLit(n int64) string {
	if n < 0 {
		return fmt.Sprintf("(- %d)", -n)
	}
	return fmt.Sprint(n)
}

func and(ts ...string) string {
	var xs []string
	for _, t := range ts {
		if t == "true" || t == "" {
			continue
		}
		if t == "false" {
			return "false"
		}
		xs = append(xs, t)
	}
	if len(xs) == 0 {
		return "true"
	}
	if len(xs) == 1 {
		return xs[0]
	}
	return "(and " + strings.Join(xs, " ") + ")"
}

func or(ts ...string) string {
	var xs []string
	for _, t := range ts {
		if t == "false" || t == "" {
			continue
		}
		if t == "true" {
			return "true"
		}
		xs = append(xs, t)
	}
	if len(xs) == 0 {
		return "false"
	}
	if len(xs) == 1 {
		return xs[0]
	}
	return "(or " + strings.Join(xs, " ") + ")"
}

func not(t string) string {
	if t == "true" {
		return "false"
	}
	if t == "false" {
		return "true"
	}
	return "(not " + t + ")"
}

func implies(a, b string) string {
	if a == "true" {
		return b
	}
	if b == "true" || a == "false" {
		return "true"
	}
	return "(=> " + a + " " + b + ")"
}

func ite(c, a, b string) string {
	if c == "true" {
		return a
	}
	if c == "false" {
		return b
	}
	if a == b {
		return a
	}
	return "(ite " + c + " " + a + " " + b + ")"
}

func sel(a, i string) string        { return "(select " + a + " " + i + ")" }
func store(a, i, v string) string   { return "(store " + a + " " + i + " " + v + ")" }
func eq(a, b string) string {
	if x, ok := isIntLit(a); ok {
		if y, ok := isIntLit(b); ok {
			if x == y {
				return "true"
			}
			return "false"
		}
	}
	return "(= " + a + " " + b + ")"
}
func app(f string, args ...string) string {
	return "(" + f + " " + strings.Join(args, " ") + ")"
}

// litSliceRe matches a slice term over a whole freshly built array: (mk-slice <arr> <off> <len> <cap>) with literal bounds.
var litSliceRe = regexp.MustCompile(`^\(mk-slice (\|[^|]*\||[A-Za-z0-9_.!]+) (\d+) (\d+) (\d+)\)$`)

func isIntLit(s string) (int64, bool) {
	n, err := strconv.ParseInt(s, 10, 64)
	return n, err == nil
}

// subT / addT build arithmetic terms, folding integer literals.
func subT(a, b string) string {
	if x, ok := isIntLit(a); ok {
		if y, ok := isIntLit(b); ok {
			return intLit(x - y)
		}
	}
	if b == "0" {
		return a
	}
	return "(- " + a + " " + b + ")"
}

func addT(a, b string) string {
	if x, ok := isIntLit(a); ok {
		if y, ok := isIntLit(b); ok {
			return intLit(x + y)
		}
	}
	if b == "0" {
		return a
	}
	if a == "0" {
		return b
	}
	return "(+ " + a + " " + b + ")"
}
