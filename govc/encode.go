package main

import (
	"fmt"
	"go/constant"
	"go/token"
	"go/types"
	"sort"
	"strings"
	"sync"

	"golang.org/x/tools/go/ssa"
)

// Encoder turns one function under contract into a linear list of SMT commands plus obligations.
type Encoder struct {
	guardsOn bool     // lock-discipline obligations are generated (property C11 is being checked)
	unshared []string // object references the contract declares thread-private
	unshDecl bool
	inputs   []inputTerm // description of the function's inputs in the entry state (for counterexample replay)
	fnTags   map[*ssa.Function]int
	topEntry *State   // entry state of the function under contract (inlined frames have their own f.entry)
	prog     *Program
	ct       *Contracts
	sorts    *SortTable
	lines    []string
	compSort map[string]string
	compDecl map[string]bool
	obls     []*Obligation
	n        int
	fn       *ssa.Function
	fc       *FuncContract
	name     string
	notes    []string // assumptions / abstractions used (for evidence)
	noteSet  map[string]bool
	oblCount map[string]int
	caseC    *CaseContract
	err      error
	axiomsIn map[string]bool
	inlineStack []*ssa.Function
	lemmaLines  []string
	lineBlk     []*ssa.BasicBlock // block of the function under contract in which each line was emitted (nil = global)
	curBlk      *ssa.BasicBlock
	anc         map[*ssa.BasicBlock]map[*ssa.BasicBlock]bool
	blockCases  map[*ssa.BasicBlock][]string // incoming edge conditions of join blocks (for the case-split fallback)
	noRead      []noReadLoc                  // read frame of the function under contract
	defs        map[string]string            // defined name -> term (for store-to-load forwarding)
	parts       map[string][]string          // constructor term -> field terms
	cellBlk     map[string]*ssa.BasicBlock // private cell ref -> top-frame block it was allocated in
	localCells  map[string][]string          // cell component -> refs of private local-variable cells
	inLoopHavoc bool
	cellAlloc   map[string]*ssa.Alloc // ref term of a private local cell -> its Alloc
}

type encErr struct{ msg string }

func (e *Encoder) fail(format string, args ...interface{}) {
	panic(encErr{fmt.Sprintf(format, args...)})
}

func (e *Encoder) note(s string) {
	if !e.noteSet[s] {
		e.noteSet[s] = true
		e.notes = append(e.notes, s)
	}
}

func (e *Encoder) emit(s string) {
	e.lines = append(e.lines, s)
	e.lineBlk = append(e.lineBlk, e.curBlk)
}

// ancestors of b in the loop-cut CFG of the function under contract (blocks from which b is reachable).
func (e *Encoder) ancestorsOf(b *ssa.BasicBlock) map[*ssa.BasicBlock]bool {
	if a, ok := e.anc[b]; ok {
		return a
	}
	a := map[*ssa.BasicBlock]bool{b: true}
	var walk func(x *ssa.BasicBlock)
	walk = func(x *ssa.BasicBlock) {
		for _, p := range x.Preds {
			if !a[p] && !isBackEdge(p, x) {
				a[p] = true
				walk(p)
			}
		}
	}
	walk(b)
	if e.anc == nil {
		e.anc = map[*ssa.BasicBlock]map[*ssa.BasicBlock]bool{}
	}
	e.anc[b] = a
	return a
}

func (e *Encoder) fresh(base string) string {
	e.n++
	base = strings.NewReplacer("|", "", "\\", "", " ", "_").Replace(base)
	return fmt.Sprintf("|%s!%d|", base, e.n)
}

func (e *Encoder) declare(base, sort string) string {
	s := e.fresh(base)
	e.emit(fmt.Sprintf("(declare-const %s %s)", s, sort))
	return s
}

// define introduces a named constant equal to term (keeps later terms small).
func (e *Encoder) define(base, sort, t string) string {
	if len(t) < 24 && !strings.HasPrefix(t, "(") {
		return t
	}
	s := e.fresh(base)
	e.emit(fmt.Sprintf("(define-fun %s () %s %s)", s, sort, t))
	if e.defs == nil {
		e.defs = map[string]string{}
	}
	e.defs[s] = t
	return s
}

// selFwd is (select a i) with store-to-load forwarding through named definitions: reading back the cell that the
// latest store wrote gives the stored term itself (keeps constants syntactic, which lets switch arms be pruned).
func (e *Encoder) selFwd(a, i string) string {
	cur := a
	for k := 0; k < 64; k++ {
		d, ok := e.defs[cur]
		if !ok {
			d = cur
		}
		if !strings.HasPrefix(d, "(store ") {
			break
		}
		parts := splitSexpArgs(d)
		if len(parts) != 4 {
			break
		}
		if parts[2] == i {
			return parts[3]
		}
		// a store at a syntactically different literal index can be skipped; otherwise stop
		_, l1 := isIntLit(parts[2])
		_, l2 := isIntLit(i)
		if !(l1 && l2) {
			break
		}
		cur = parts[1]
	}
	return sel(a, i)
}

// splitSexpArgs splits "(f a b c)" into ["f","a","b","c"] at the top level.
func splitSexpArgs(s string) []string {
	if len(s) < 2 || s[0] != '(' || s[len(s)-1] != ')' {
		return nil
	}
	s = s[1 : len(s)-1]
	var out []string
	depth, start, inBar := 0, 0, false
	for i := 0; i < len(s); i++ {
		switch {
		case s[i] == '|':
			inBar = !inBar
		case inBar:
		case s[i] == '(':
			depth++
		case s[i] == ')':
			depth--
		case s[i] == ' ' && depth == 0:
			if i > start {
				out = append(out, s[start:i])
			}
			start = i + 1
		}
	}
	if start < len(s) {
		out = append(out, s[start:])
	}
	return out
}

func (e *Encoder) assume(pc, fact string) {
	if fact == "true" {
		return
	}
	e.emit("(assert " + implies(pc, fact) + ")")
}

// ---- heap components ----

func (e *Encoder) comp(st *State, name, sort string) string {
	if old, ok := e.compSort[name]; ok {
		if old != sort && sort != "" {
			e.fail("component %s used at sorts %s and %s", name, old, sort)
		}
	} else {
		if sort == "" {
			e.fail("component %s has unknown sort", name)
		}
		e.compSort[name] = sort
	}
	if t, ok := st.heap[name]; ok {
		return t
	}
	ep := ""
	if !(strings.HasPrefix(name, "LW.") || strings.HasPrefix(name, "LR.") || name == "alloc" || strings.HasPrefix(name, "ITER.") || name == "CH.pending") {
		for i := len(st.havocs) - 1; i >= 0; i-- {
			if h := st.havocs[i]; h.ws == nil || h.ws.matches(name) {
				ep = h.ep
				break
			}
		}
	}
	if ep != "" {
		// first mention of this component after it was havocked (by a call without frame, a loop that may write
		// anything): an unconstrained version of that epoch, not the entry version
		v := smtQuote(name + "@" + strings.Trim(ep, "|"))
		if !e.compDecl[v] {
			e.compDecl[v] = true
			saved := e.curBlk
			e.curBlk = nil
			e.emit(fmt.Sprintf("(declare-const %s %s)", v, e.compSort[name]))
			e.curBlk = saved
		}
		st.heap[name] = v
		return v
	}
	init := smtQuote(name + "@0")
	if !e.compDecl[name] {
		e.compDecl[name] = true
		saved := e.curBlk
		e.curBlk = nil // entry-state components are global to the function's encoding
		e.emit(fmt.Sprintf("(declare-const %s %s)", init, e.compSort[name]))
		e.curBlk = saved
	}
	return init
}

func (e *Encoder) setComp(st *State, name, t string) {
	st.heap[name] = e.define(name, e.compSort[name], t)
}

func (e *Encoder) havocComp(st *State, name string) {
	if _, ok := e.compSort[name]; !ok {
		return
	}
	old := e.comp(st, name, "")
	nv := e.declare(name, e.compSort[name])
	// cells of local variables (Alloc'd by the functions being encoded, e.g. variables captured by a closure) are
	// not reachable from a callee's arguments: a havoc by a call or a loop of *other* code leaves them alone.
	// (The loop havoc re-establishes them through this same rule only for cells the loop does not write: see localCells.)
	if refs := e.localCells[name]; len(refs) > 0 && !e.inLoopHavoc {
		t := nv
		for _, r := range refs {
			if e.cellLive(r) {
				t = store(t, r, sel(old, r))
			}
		}
		nv = e.define(name, e.compSort[name], t)
	}
	st.heap[name] = nv
}

// cellLive: the private cell r was allocated on a path that reaches the current block (a cell allocated on another
// branch does not exist here, and its declaration is sliced out of this block's queries).
func (e *Encoder) cellLive(r string) bool {
	b, ok := e.cellBlk[r]
	if !ok || b == nil || e.curBlk == nil {
		return !ok || b == nil
	}
	return e.ancestorsOf(e.curBlk)[b]
}

func arrSort(elem string) string  { return "(Array Int " + elem + ")" }
func arr2Sort(elem string) string { return "(Array Int (Array Int " + elem + "))" }

func (e *Encoder) fieldComp(structT types.Type, field string) string {
	return "H." + e.sorts.typeStr(structT) + "." + field
}
func (e *Encoder) elemComp(elemT types.Type) string { return "E." + e.sorts.typeStr(elemT) }
func (e *Encoder) cellComp(t types.Type) string     { return "C." + e.sorts.typeStr(t) }

// derefStruct returns the struct type S if t is *S or S (named or not).
func derefStruct(t types.Type) (types.Type, *types.Struct) {
	if p, ok := t.Underlying().(*types.Pointer); ok {
		t = p.Elem()
	}
	if s, ok := t.Underlying().(*types.Struct); ok {
		return t, s
	}
	return nil, nil
}

// ptrLoc converts a pointer-typed value to a Loc of the pointee.
func (e *Encoder) ptrLoc(v *Value) *Loc {
	if v.Loc != nil {
		return v.Loc
	}
	p, ok := v.Type.Underlying().(*types.Pointer)
	if !ok {
		e.fail("ptrLoc of non-pointer %v (%v)", v, v.Type)
	}
	el := p.Elem()
	if _, isS := el.Underlying().(*types.Struct); isS && !isTimeTime(el) {
		// pointer to a whole struct object: pseudo-location with empty component (fields addressed individually)
		return &Loc{Comp: "", Idx: []string{v.T}, Type: el, Root: el}
	}
	if a, isA := el.Underlying().(*types.Array); isA {
		_ = a
		return &Loc{Comp: "ARRAY", Idx: []string{v.T}, Type: el, Root: el}
	}
	return &Loc{Comp: e.cellComp(el), Idx: []string{v.T}, Type: el, Root: el}
}

// fieldLoc: address of field f of the struct located at l.
func (e *Encoder) fieldLoc(l *Loc, f *types.Var) *Loc {
	if l.Comp == "" { // whole heap object
		return &Loc{Comp: e.fieldComp(l.Type, f.Name()), Idx: l.Idx, Type: f.Type(), Root: f.Type()}
	}
	n := &Loc{Comp: l.Comp, Idx: l.Idx, Root: l.Root, Type: f.Type()}
	n.Path = append(append([]pathStep{}, l.Path...), pathStep{f.Name(), l.Type})
	return n
}

func (e *Encoder) rootSort(l *Loc) string { return e.sorts.sortOf(l.Root) }

func (e *Encoder) readRoot(st *State, l *Loc) string {
	switch len(l.Idx) {
	case 1:
		return e.selFwd(e.comp(st, l.Comp, arrSort(e.rootSort(l))), l.Idx[0])
	case 2:
		return sel(sel(e.comp(st, l.Comp, arr2Sort(e.rootSort(l))), l.Idx[0]), l.Idx[1])
	}
	e.fail("bad loc")
	return ""
}

func (e *Encoder) writeRoot(st *State, l *Loc, v string) {
	switch len(l.Idx) {
	case 1:
		c := e.comp(st, l.Comp, arrSort(e.rootSort(l)))
		e.setComp(st, l.Comp, store(c, l.Idx[0], v))
	case 2:
		c := e.comp(st, l.Comp, arr2Sort(e.rootSort(l)))
		e.setComp(st, l.Comp, store(c, l.Idx[0], store(sel(c, l.Idx[0]), l.Idx[1], v)))
	}
}

// load reads the value at l.
func (e *Encoder) load(st *State, l *Loc) *Value {
	if l.Comp == "" {
		// whole struct object: assemble from fields
		sT, s := derefStruct(l.Type)
		if isOpaqueStruct(l.Type) {
			return term(l.Idx[0], sInt, l.Type)
		}
		ss := e.sorts.structSortOf(sT, s)
		parts := []string{ss.ctor()}
		for i := 0; i < s.NumFields(); i++ {
			parts = append(parts, e.load(st, e.fieldLoc(l, s.Field(i))).T)
		}
		if len(parts) == 1 {
			return term(parts[0], ss.Name, l.Type)
		}
		return term("("+strings.Join(parts, " ")+")", ss.Name, l.Type)
	}
	if l.Comp == "ARRAY" {
		a := l.Type.Underlying().(*types.Array)
		return term(sel(e.comp(st, e.elemComp(a.Elem()), arr2Sort(e.sorts.sortOf(a.Elem()))), l.Idx[0]), e.sorts.sortOf(l.Type), l.Type)
	}
	t := e.readRoot(st, l)
	for _, ps := range l.Path {
		sT, s := derefStruct(ps.In)
		ss := e.sorts.structSortOf(sT, s)
		t = app(ss.field(ps.Field).Acc, t)
	}
	return term(t, e.sorts.sortOf(l.Type), l.Type)
}

// storeLoc writes v at l.
func (e *Encoder) storeLoc(st *State, l *Loc, v *Value) {
	if l.Comp == "" {
		sT, s := derefStruct(l.Type)
		if isOpaqueStruct(l.Type) {
			e.fail("store of opaque struct value %v", l.Type)
		}
		ss := e.sorts.structSortOf(sT, s)
		for i := 0; i < s.NumFields(); i++ {
			f := s.Field(i)
			e.storeLoc(st, e.fieldLoc(l, f), term(e.fieldOf(ss, i, v.T), ss.Fields[i].Sort, f.Type()))
		}
		return
	}
	if l.Comp == "ARRAY" {
		a := l.Type.Underlying().(*types.Array)
		cn := e.elemComp(a.Elem())
		c := e.comp(st, cn, arr2Sort(e.sorts.sortOf(a.Elem())))
		e.setComp(st, cn, store(c, l.Idx[0], v.T))
		return
	}
	if len(l.Path) == 0 {
		e.writeRoot(st, l, v.T)
		return
	}
	e.writeRoot(st, l, e.updatePath(e.readRoot(st, l), l.Path, v.T))
}

func (e *Encoder) updatePath(base string, path []pathStep, v string) string {
	if len(path) == 0 {
		return v
	}
	sT, s := derefStruct(path[0].In)
	ss := e.sorts.structSortOf(sT, s)
	parts := []string{ss.ctor()}
	for _, f := range ss.Fields {
		cur := app(f.Acc, base)
		if f.Name == path[0].Field {
			cur = e.updatePath(cur, path[1:], v)
		}
		parts = append(parts, cur)
	}
	return "(" + strings.Join(parts, " ") + ")"
}

// ---- allocation ----

func (e *Encoder) allocRef(st *State, pc, base string) string {
	r := e.declare(base, sInt)
	al := e.comp(st, "alloc", arrSort(sBool))
	e.assume("true", and("(> "+r+" 0)", not(sel(al, r))))
	e.setComp(st, "alloc", store(al, r, "true"))
	return r
}

// assumeAllocated records that a loaded reference is an allocated object (heap well-formedness).
func (e *Encoder) assumeAllocated(st *State, pc string, v *Value) {
	if v == nil || v.Loc != nil || v.Tuple != nil || v.Type == nil {
		return
	}
	switch v.Type.Underlying().(type) {
	case *types.Pointer, *types.Map, *types.Chan:
		al := e.comp(st, "alloc", arrSort(sBool))
		e.assume(pc, or(eq(v.T, "0"), sel(al, v.T)))
	case *types.Slice:
		al := e.comp(st, "alloc", arrSort(sBool))
		e.assume(pc, and(or(eq(app("sarr", v.T), "0"), sel(al, app("sarr", v.T))), e.wfSlice(v.T)))
	case *types.Basic:
		if b := v.Type.Underlying().(*types.Basic); b.Info()&types.IsUnsigned != 0 {
			e.assume(pc, "(>= "+v.T+" 0)")
		}
	}
}

func (e *Encoder) wfSlice(s string) string {
	return and("(>= (soff "+s+") 0)", "(>= (slen "+s+") 0)", "(<= (slen "+s+") (scap "+s+"))",
		implies(eq(app("sarr", s), "0"), and(eq(app("slen", s), "0"), eq(app("scap", s), "0"))))
}

// zeroInit initialises a freshly allocated object of type t at reference r.
func (e *Encoder) zeroInit(st *State, r string, t types.Type) {
	switch u := t.Underlying().(type) {
	case *types.Struct:
		if !isOpaqueStruct(t) {
			for i := 0; i < u.NumFields(); i++ {
				f := u.Field(i)
				l := &Loc{Comp: e.fieldComp(t, f.Name()), Idx: []string{r}, Type: f.Type(), Root: f.Type()}
				e.writeRoot(st, l, e.sorts.zero(f.Type()))
				if np := namedPath(f.Type()); np == "sync.Mutex" || np == "sync.RWMutex" {
					wn, rn, _ := e.lockComps(l)
					e.setComp(st, wn, store(e.comp(st, wn, arrSort(sBool)), r, "false"))
					e.setComp(st, rn, store(e.comp(st, rn, arrSort(sInt)), r, "0"))
				}
			}
		}
		// ghost fields
		np := namedPathShort(t)
		for _, k := range sortedGhostKeys(e.ct) {
			g := e.ct.Ghost[k]
			if g.Struct == np {
				cn := "H." + g.Struct + "." + g.Name
				c := e.comp(st, cn, arrSort(g.Sort))
				e.setComp(st, cn, store(c, r, zeroOfSort(g.Sort)))
			}
		}
	case *types.Array:
		cn := e.elemComp(u.Elem())
		c := e.comp(st, cn, arr2Sort(e.sorts.sortOf(u.Elem())))
		e.setComp(st, cn, store(c, r, fmt.Sprintf("((as const (Array Int %s)) %s)", e.sorts.sortOf(u.Elem()), e.sorts.zero(u.Elem()))))
	default:
		l := &Loc{Comp: e.cellComp(t), Idx: []string{r}, Type: t, Root: t}
		e.writeRoot(st, l, e.sorts.zero(t))
	}
}

func sortedGhostKeys(c *Contracts) []string {
	var ks []string
	for k := range c.Ghost {
		ks = append(ks, k)
	}
	sort.Strings(ks)
	return ks
}

func zeroOfSort(s string) string {
	switch s {
	case sInt:
		return "0"
	case sBool:
		return "false"
	case sStr:
		return "snil"
	case sAny:
		return "ANil"
	case sF64:
		return "(_ +zero 11 53)"
	case sSlice:
		return "(mk-slice 0 0 0 0)"
	}
	if strings.HasPrefix(s, "(Array Int ") {
		inner := strings.TrimSuffix(strings.TrimPrefix(s, "(Array Int "), ")")
		return fmt.Sprintf("((as const %s) %s)", s, zeroOfSort(inner))
	}
	return "0"
}

// namedPathShort gives "strings.Builder", "metrics.Metric" for named types (pointer stripped).
func namedPathShort(t types.Type) string {
	t = types.Unalias(t) // os.FileInfo is an alias of fs.FileInfo
	if p, ok := t.(*types.Pointer); ok {
		t = types.Unalias(p.Elem())
	}
	if n, ok := t.(*types.Named); ok {
		o := n.Obj()
		if o.Pkg() != nil {
			return shortPkg(o.Pkg().Path()) + "." + o.Name()
		}
		return o.Name()
	}
	return ""
}

// ---- constants ----

func (e *Encoder) constVal(c *ssa.Const) *Value {
	t := c.Type()
	if c.Value == nil {
		return term(e.sorts.zero(t), e.sorts.sortOf(t), t)
	}
	switch u := t.Underlying().(type) {
	case *types.Basic:
		switch {
		case u.Info()&types.IsBoolean != 0:
			return term(fmt.Sprint(constant.BoolVal(c.Value)), sBool, t)
		case u.Info()&types.IsInteger != 0:
			if i, ok := constant.Int64Val(constant.ToInt(c.Value)); ok {
				return term(intLit(i), sInt, t)
			}
			return term(bigLit(constant.ToInt(c.Value).ExactString()), sInt, t)
		case u.Info()&types.IsFloat != 0:
			f, _ := constant.Float64Val(c.Value)
			return term(f64Lit(f), sF64, t)
		case u.Info()&types.IsString != 0:
			return term(strLit(constant.StringVal(c.Value)), sStr, t)
		}
	}
	e.fail("unsupported constant %v of type %v", c, t)
	return nil
}

func bigLit(s string) string {
	if strings.HasPrefix(s, "-") {
		return "(- " + s[1:] + ")"
	}
	return s
}

// ---- obligations ----

func (e *Encoder) oblige(kind, label, pc, goal, desc string, pos token.Pos, props []string) *Obligation {
	key := kind
	if label != "" {
		key = kind + "." + label
	}
	e.oblCount[key]++
	name := fmt.Sprintf("%s#%s", e.name, key)
	if label == "" || e.oblCount[key] > 1 {
		name = fmt.Sprintf("%s#%s.%d", e.name, key, e.oblCount[key])
	}
	explicit := props != nil
	if props == nil {
		props = e.fc.Props
		if e.caseC != nil && len(e.caseC.Props) > 0 {
			props = e.caseC.Props
		}
	}
	o := &Obligation{Name: name, Func: e.name, Kind: kind, Props: props, Explicit: explicit, Prefix: len(e.lines), PC: pc, Goal: goal, Desc: desc, enc: e, Block: e.curBlk}
	if e.curBlk != nil {
		o.Cases = e.blockCases[e.curBlk]
	}
	if pos.IsValid() {
		p := e.prog.Fset.Position(pos)
		o.Pos = fmt.Sprintf("%s:%d", p.Filename, p.Line)
	}
	e.obls = append(e.obls, o)
	return o
}

// query renders the SMT text of an obligation.
func (o *Obligation) query() string { return o.queryWith(true, false) }

func (o *Obligation) hasLemmas() bool { return o.Standalone == "" && len(o.enc.lemmaLines) > 0 }

var renderMu sync.Mutex

// queryWith renders the SMT text, with or without the lemmas the function's contract asks for, and with recursive
// spec functions either defined or left uninterpreted. Dropping premises is always sound for proving.
func (o *Obligation) queryWith(lemmas, opaqueRec bool) string {
	if o.Standalone != "" {
		return o.Standalone
	}
	renderMu.Lock()
	defer renderMu.Unlock()
	e := o.enc
	e.ct.opaqueRec = opaqueRec
	defer func() { e.ct.opaqueRec = false }()
	var body strings.Builder
	var anc map[*ssa.BasicBlock]bool
	if o.Block != nil {
		anc = e.ancestorsOf(o.Block)
	}
	for i, l := range e.lines[:o.Prefix] {
		// slice: lines emitted in blocks that cannot reach the obligation's block are irrelevant to it
		if anc != nil && e.lineBlk[i] != nil && !anc[e.lineBlk[i]] {
			continue
		}
		body.WriteString(l)
		body.WriteByte('\n')
	}
	if lemmas {
		for _, l := range e.lemmaLines {
			body.WriteString(l)
			body.WriteByte('\n')
		}
	}
	fmt.Fprintf(&body, "(assert (not %s))\n", implies(o.PC, o.Goal))
	text := body.String()
	var b strings.Builder
	b.WriteString("; obligation " + o.Name + "\n; " + strings.ReplaceAll(o.Desc, "\n", " ") + "\n")
	b.WriteString(prelude)
	b.WriteString(e.sorts.decls())
	b.WriteString(e.ct.specDecls(func(n string) bool { return containsSymbol(text, n) }))
	b.WriteString(text)
	b.WriteString("(check-sat)\n")
	return b.String()
}

func f64Lit(f float64) string {
	switch {
	case f != f:
		return "(_ NaN 11 53)"
	case f > 1.7976931348623157e308:
		return "(_ +oo 11 53)"
	case f < -1.7976931348623157e308:
		return "(_ -oo 11 53)"
	case f == 0:
		return "(_ +zero 11 53)"
	}
	bits := float64bits(f)
	return fmt.Sprintf("(fp #b%01b #b%011b #b%052b)", bits>>63, (bits>>52)&0x7ff, bits&((1<<52)-1))
}

// fnTag numbers plain functions that are stored as values (distinct functions get distinct positive numbers).
func (e *Encoder) fnTag(fn *ssa.Function) int {
	if e.fnTags == nil {
		e.fnTags = map[*ssa.Function]int{}
	}
	if t, ok := e.fnTags[fn]; ok {
		return t
	}
	t := len(e.fnTags) + 1
	e.fnTags[fn] = t
	return t
}
