package main

import (
	"context"
	"encoding/json"
	"fmt"
	"os"
	"os/exec"
	"path/filepath"
	"regexp"
	"sort"
	"strings"
	"time"
)

// Bounded stand-ins (DESIGN §13.8).  A file /verif/bounded/<prop>_<name>.go.tmpl is an in-package Go test
// (`// pkg: <dir>` header, test TestGovcBounded) that explores, with a stated bound, a function or pipeline the
// contract language cannot reach, on the REAL code of the tree under check (go test -overlay; nothing is written to
// the repository).  It is labelled bounded in the evidence and never counted among the proved obligations.  Output
// protocol: `BOUNDED-VIOLATION class=<c> ...` up to `BOUNDED-END` per failing class, one `BOUNDED-SUMMARY k=v ...`
// line, `BOUNDED-TOOL-ERROR ...` when the harness itself no longer fits the code.

type boundedViolation struct {
	Name   string // obligation-style name: bounded.<file>#<class>
	Detail string
}

type boundedResult struct {
	File       string
	Pkg        string
	Bound      string
	Summary    map[string]string
	Violations []boundedViolation
	ToolError  string
	Seconds    float64
	Output     string
}

// boundedTier is handed to the harnesses as VERIF_TIER: under "thorough" several of them explore one step deeper.
var boundedTier = "quick"

var boundedClassRe = regexp.MustCompile(`^BOUNDED-VIOLATION class=(\S+)`)

func boundedTemplates(prop string) []string {
	ms, _ := filepath.Glob(filepath.Join(verifDir, "bounded", prop+"_*.go.tmpl"))
	sort.Strings(ms)
	return ms
}

func runBounded(prop, tmplPath, workDir string) boundedResult {
	res := boundedResult{File: filepath.Base(tmplPath), Summary: map[string]string{}}
	base := strings.TrimSuffix(res.File, ".go.tmpl")
	src, err := os.ReadFile(tmplPath)
	if err != nil {
		res.ToolError = err.Error()
		return res
	}
	var bound []string
	for _, l := range strings.Split(string(src), "\n") {
		if strings.HasPrefix(l, "// pkg: ") {
			res.Pkg = strings.TrimSpace(strings.TrimPrefix(l, "// pkg: "))
		}
		if strings.HasPrefix(l, "// Bound:") || (len(bound) > 0 && strings.HasPrefix(l, "//   ")) {
			bound = append(bound, strings.TrimSpace(strings.TrimPrefix(l, "//")))
		} else if len(bound) > 0 && !strings.HasPrefix(l, "//   ") && res.Bound == "" {
			res.Bound = strings.Join(bound, " ")
		}
		if strings.HasPrefix(l, "package ") {
			break
		}
	}
	if res.Bound == "" {
		res.Bound = strings.Join(bound, " ")
	}
	if res.Pkg == "" {
		res.ToolError = "bounded template without `// pkg:` header"
		return res
	}
	root := repoRoot()
	os.MkdirAll(workDir, 0o755)
	testFile := filepath.Join(workDir, base+"_test.go")
	// a replay template (bounded search written for counterexample replay) can serve as a stand-in unchanged
	src = []byte(strings.Replace(string(src), "/*INPUTS*/", "`{}`", 1))
	os.WriteFile(testFile, src, 0o644)
	ov := map[string]map[string]string{"Replace": {filepath.Join(root, res.Pkg, "zz_govc_bounded_test.go"): testFile}}
	ovData, _ := json.Marshal(ov)
	ovFile := filepath.Join(workDir, base+".overlay.json")
	os.WriteFile(ovFile, ovData, 0o644)
	ctx, cancel := context.WithTimeout(context.Background(), 1800*time.Second)
	defer cancel()
	t0 := time.Now()
	cmd := exec.CommandContext(ctx, "go", "test", "-tags", "verif", "-overlay", ovFile, "-v", "-vet=off", "-count=1", "-timeout", "1500s", "-run", "^(TestGovcBounded|TestGovcReplay)$", "./"+res.Pkg+"/")
	cmd.Dir = root
	// the code under test logs through glog, which writes one file per test binary into the temporary directory:
	// give the run a temporary directory of its own and remove it afterwards
	tmp := filepath.Join(workDir, "tmp."+base)
	os.MkdirAll(tmp, 0o755)
	defer os.RemoveAll(tmp)
	cmd.Env = append(os.Environ(), "GOFLAGS=-mod=mod", "GOPROXY=off", "GOSUMDB=off", "GOTOOLCHAIN=local", "VERIF_TIER="+boundedTier, "TMPDIR="+tmp)
	b, _ := cmd.CombinedOutput()
	res.Seconds = time.Since(t0).Seconds()
	res.Output = string(b)
	os.WriteFile(filepath.Join(workDir, base+".output.txt"), b, 0o644)
	lines := strings.Split(res.Output, "\n")
	sawSummary := false
	for i := 0; i < len(lines); i++ {
		l := lines[i]
		if m := boundedClassRe.FindStringSubmatch(l); m != nil {
			var det []string
			for ; i < len(lines) && lines[i] != "BOUNDED-END"; i++ {
				det = append(det, lines[i])
			}
			res.Violations = append(res.Violations, boundedViolation{Name: "bounded." + base + "#" + m[1], Detail: strings.Join(det, "\n")})
			continue
		}
		if strings.HasPrefix(l, "BOUNDED-SUMMARY ") {
			sawSummary = true
			for _, kv := range strings.Fields(strings.TrimPrefix(l, "BOUNDED-SUMMARY ")) {
				if j := strings.Index(kv, "="); j > 0 {
					res.Summary[kv[:j]] = kv[j+1:]
				}
			}
		}
		if strings.HasPrefix(l, "BOUNDED-TOOL-ERROR") {
			res.ToolError = l
		}
	}
	if !sawSummary && res.ToolError == "" && strings.Contains(res.Output, "REPRODUCED") {
		// replay-template protocol: the first failing case ends the search
		i := strings.Index(res.Output, "REPRODUCED")
		j := strings.Index(res.Output[i:], "\n")
		if j < 0 {
			j = len(res.Output) - i
		}
		res.Violations = append(res.Violations, boundedViolation{Name: "bounded." + base + "#search", Detail: res.Output[i : i+j]})
		sawSummary = true
	}
	if strings.Contains(res.Output, "no tests to run") {
		res.ToolError = "bounded harness " + res.File + " contains no test named TestGovcBounded or TestGovcReplay"
	}
	if !sawSummary && res.ToolError == "" && regexp.MustCompile(`(?m)^ok\s`).MatchString(res.Output) {
		res.Summary["result"] = "the whole bound was explored without a failing case"
		sawSummary = true
	}
	if !sawSummary && res.ToolError == "" {
		// build failure, harness panic, timeout: the harness could not explore anything
		if realCodePanicked(res.Output, root) {
			res.Violations = append(res.Violations, boundedViolation{Name: "bounded." + base + "#panic", Detail: firstLines(res.Output, 60)})
		} else {
			res.ToolError = "bounded harness did not complete: " + firstLines(res.Output, 12)
		}
	}
	return res
}

// writeBoundedReplay stores the failing class with the program / input the harness printed; the harness file itself
// is the replay (it re-enumerates the bound against the current tree).
func writeBoundedReplay(prop string, v boundedViolation, r boundedResult, tmplPath string) string {
	dir := filepath.Join(scratchDir(), "replay", prop, fileSafe(v.Name))
	os.MkdirAll(dir, 0o755)
	rep := fmt.Sprintf("property: %s\nfailed bounded stand-in: %s\nharness: %s (package %s)\nbound: %s\n\nfailing input found by the harness on the real code:\n%s\n",
		prop, v.Name, tmplPath, r.Pkg, r.Bound, v.Detail)
	os.WriteFile(filepath.Join(dir, "REPORT.txt"), []byte(rep), 0o644)
	if src, err := os.ReadFile(tmplPath); err == nil {
		text := strings.Replace(string(src), "/*INPUTS*/", "`{}`", 1)
		os.WriteFile(filepath.Join(dir, "replay_test.go"), []byte(strings.Replace(text, "TestGovcBounded", "TestGovcReplay", -1)), 0o644)
		os.WriteFile(filepath.Join(dir, "replay_pkg.txt"), []byte(r.Pkg), 0o644)
	}
	return dir
}
