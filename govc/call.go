package main

import (
	"fmt"
	"go/token"
	"go/types"
	"sort"
	"strings"

	"golang.org/x/tools/go/ssa"
)

func (f *Frame) call(c *ssa.CallCommon, instr ssa.Value, pos token.Pos) *Value {
	var args []*Value
	for _, a := range c.Args {
		args = append(args, f.val(a))
	}
	var fnVal *Value
	if !c.IsInvoke() {
		if _, isB := c.Value.(*ssa.Builtin); !isB {
			fnVal = f.val(c.Value)
		}
	}
	return f.callCommon(c, args, fnVal, instr, pos)
}

func (f *Frame) resultType(c *ssa.CallCommon) types.Type {
	sig := c.Signature()
	switch sig.Results().Len() {
	case 0:
		return nil
	case 1:
		return sig.Results().At(0).Type()
	}
	return sig.Results()
}

// callCommon dispatches a call. instr may be nil (defer / go).
func (f *Frame) callCommon(c *ssa.CallCommon, args []*Value, fnVal *Value, instr ssa.Value, pos token.Pos) *Value {
	e := f.e
	if b, ok := c.Value.(*ssa.Builtin); ok && !c.IsInvoke() {
		return f.builtin(b.Name(), c, args, pos)
	}
	if c.IsInvoke() {
		return f.invoke(c, args, pos)
	}
	if fnVal != nil && fnVal.Fn != nil {
		all := append(append([]*Value{}, args...))
		return f.callStatic(fnVal.Fn, all, fnVal.Free, c, pos)
	}
	// dynamic call through a function value
	if p, ok := c.Value.(*ssa.Parameter); ok {
		if f.top && !f.dry && f.fc != nil && len(f.fc.Asserts) > 0 {
			f.siteAsserts(p.Name(), pos) // `assert before.<param>:` at a call through a function-typed parameter
		}
		key := e.qual(f.fn) + ":" + p.Name()
		if fc := e.ct.Funcs[key]; fc != nil {
			return f.applyContract(fc, key, nil, c.Signature(), args, nil, pos)
		}
	}
	if fv, ok := c.Value.(*ssa.FreeVar); ok {
		key := e.qual(f.fn) + ":" + fv.Name()
		if fc := e.ct.Funcs[key]; fc != nil {
			return f.applyContract(fc, key, nil, c.Signature(), args, nil, pos)
		}
	}
	// a call through a function value read from a struct field: `assert before.field.<name>:` site assertions
	if fld := fieldOfFuncValue(c.Value); fld != "" && f.top && !f.dry && f.fc != nil && len(f.fc.Asserts) > 0 {
		f.siteAsserts("field."+fld, pos, args...)
	}
	// any other dynamic call in this function: contract "<function>:dyn" if present
	if fc := e.ct.Funcs[e.qual(f.fn)+":dyn"]; fc != nil {
		return f.applyContract(fc, e.qual(f.fn)+":dyn", nil, c.Signature(), args, nil, pos)
	}
	e.note(fmt.Sprintf("%s: call through function value %s: everything havocked", e.qual(f.fn), c.Value.Name()))
	return f.havocCall(c, pos)
}

func (e *Encoder) qual(fn *ssa.Function) string { return qualName(fn) }

func (f *Frame) havocCall(c *ssa.CallCommon, pos token.Pos) *Value {
	e := f.e
	for _, k := range sortedKeys(e.compSort) {
		if strings.HasPrefix(k, "L") && (strings.HasPrefix(k, "LW.") || strings.HasPrefix(k, "LR.")) {
			continue
		}
		if k == "alloc" || strings.HasPrefix(k, "ITER.") || k == "CH.pending" {
			continue // a callee returns with its own producer goroutines drained (its handoff.drained obligation), like locks
		}
		e.havocComp(f.st, k)
	}
	e.havocEpoch(f.st)
	f.havocAlloc()
	rt := f.resultType(c)
	if rt == nil {
		return &Value{Tuple: []*Value{}}
	}
	r := f.freshOf(f.id+".call", rt)
	f.assumeAllocDeep(r)
	return r
}

func (f *Frame) assumeAllocDeep(v *Value) {
	if v.Tuple != nil {
		for _, x := range v.Tuple {
			f.assumeAllocDeep(x)
		}
		return
	}
	f.e.assumeAllocated(f.st, f.pc, v)
}

func (f *Frame) havocAlloc() {
	e := f.e
	a0 := e.comp(f.st, "alloc", arrSort(sBool))
	a1 := e.declare("alloc", arrSort(sBool))
	e.assume("true", fmt.Sprintf("(forall ((r Int)) (! (=> (select %s r) (select %s r)) :pattern ((select %s r))))", a0, a1, a1))
	e.assume("true", not(sel(a1, "0"))) // nil is never an allocated object
	f.st.heap["alloc"] = a1
}

func sortedKeys(m map[string]string) []string {
	var ks []string
	for k := range m {
		ks = append(ks, k)
	}
	sort.Strings(ks)
	return ks
}

var effectFreePrefixes = []string{"glog.", "log.", "fmt.Sprint", "fmt.Errorf", "errors.Errorf", "errors.New", "errors.Wrap", "errors.Wrapf",
	"debug.Stack", "strconv.", "strings.", "filepath.", "path.", "bytes.", "math.", "sort.SearchStrings", "time.Duration", "utf8.", "unicode."}

func isEffectFree(name string) bool {
	for _, p := range effectFreePrefixes {
		if strings.HasPrefix(name, p) {
			return true
		}
	}
	return false
}

func inRepo(fn *ssa.Function) bool {
	return fn.Pkg != nil && strings.HasPrefix(fn.Pkg.Pkg.Path(), "github.com/google/mtail")
}

func hasLoops(fn *ssa.Function) bool {
	for _, b := range fn.Blocks {
		for _, s := range b.Succs {
			if isBackEdge(b, s) {
				return true
			}
		}
	}
	return false
}

const maxInlineDepth = 8

func (f *Frame) callStatic(fn *ssa.Function, args, free []*Value, c *ssa.CallCommon, pos token.Pos) *Value {
	e := f.e
	name := e.qual(fn)
	if f.top && !f.dry && f.fc != nil && len(f.fc.Asserts) > 0 {
		f.siteAsserts(shortName(name), pos, args...)
		// `assert before.<Receiver>.<Method>:` selects the calls of one receiver type ("metrics.(*Store).Add" -> "Store.Add")
		if q := recvMethod(name); q != "" {
			f.siteAsserts(q, pos, args...)
		}
	}
	if r, ok := f.stdBuiltin(name, fn, args, c, pos); ok {
		return r
	}
	if fc := e.ct.Funcs[name]; fc != nil && !fc.Inline {
		return f.applyContract(fc, name, fn, fn.Signature, args, free, pos)
	}
	if (inRepo(fn) || fn.Synthetic != "" && len(fn.Blocks) > 0) && len(fn.Blocks) > 0 && !hasLoops(fn) && f.depth < maxInlineDepth && !f.onStack(fn) {
		return f.inline(fn, args, free, pos)
	}
	if isEffectFree(name) {
		e.note("effect-free call (result unconstrained, heap unchanged): " + name)
		rt := f.resultType(c)
		if rt == nil {
			return &Value{Tuple: []*Value{}}
		}
		r := f.freshOf(f.id+"."+fn.Name(), rt)
		f.errNonNil(name, r)
		return r
	}
	if inRepo(fn) && len(fn.Blocks) > 0 {
		if ws := e.mayWrite(fn); !ws.all {
			e.note(fmt.Sprintf("call to %s without contract: computed frame (may-write analysis): %s", name, ws))
			return f.havocCallSet(c, ws)
		}
	}
	e.note(fmt.Sprintf("%s: call to %s without contract: everything havocked", e.qual(f.fn), name))
	return f.havocCall(c, pos)
}

// havocCallSet: like havocCall, for a callee whose possible writes are known to lie within ws.
func (f *Frame) havocCallSet(c *ssa.CallCommon, ws *writeSet) *Value {
	f.e.havocSet(f.st, ws)
	f.havocAlloc()
	rt := f.resultType(c)
	if rt == nil {
		return &Value{Tuple: []*Value{}}
	}
	r := f.freshOf(f.id+".call", rt)
	f.assumeAllocDeep(r)
	return r
}

// errNonNil: constructors of error values return non-nil.
func (f *Frame) errNonNil(name string, r *Value) {
	switch name {
	case "errors.Errorf", "errors.New", "fmt.Errorf", "errors.Wrapf":
		if r.Sort == sAny {
			f.e.assume("true", not(eq(r.T, "ANil")))
		}
	}
}

func (f *Frame) onStack(fn *ssa.Function) bool {
	for _, s := range f.e.inlineStack {
		if s == fn {
			return true
		}
	}
	return fn == f.e.fn
}

// inline encodes the callee body in place.
func (f *Frame) inline(fn *ssa.Function, args, free []*Value, pos token.Pos) *Value {
	e := f.e
	g := e.newFrame(fn, f.depth+1)
	g.dry = f.dry
	for i, p := range fn.Params {
		g.vals[p] = args[i]
		g.params[p.Name()] = args[i]
	}
	for i, fv := range fn.FreeVars {
		if i < len(free) {
			g.vals[fv] = free[i]
		}
	}
	e.inlineStack = append(e.inlineStack, fn)
	g.run(f.pc, f.st)
	e.inlineStack = e.inlineStack[:len(e.inlineStack)-1]
	return f.joinReturns(g, fn)
}

// joinReturns merges the return points of an inlined activation into the caller's state.
func (f *Frame) joinReturns(g *Frame, fn *ssa.Function) *Value {
	e := f.e
	if len(g.rets) == 0 {
		f.pc = "false"
		return f.freshOrEmpty(fn.Signature.Results())
	}
	var conds []string
	for i := range g.rets {
		g.rets[i].pc = e.define("ret", sBool, g.rets[i].pc)
		conds = append(conds, g.rets[i].pc)
	}
	// state
	if len(g.rets) == 1 {
		f.st = g.rets[0].st
	} else {
		names := map[string]bool{}
		for _, r := range g.rets {
			for k := range r.st.heap {
				names[k] = true
			}
		}
		st := &State{heap: map[string]string{}}
		{
			var sts []*State
			for _, r := range g.rets {
				sts = append(sts, r.st)
			}
			st.havocs = e.mergeEpoch(sts)
		}
		var ks []string
		for k := range names {
			ks = append(ks, k)
		}
		sort.Strings(ks)
		for _, k := range ks {
			first := e.comp(g.rets[0].st, k, "")
			same := true
			for _, r := range g.rets[1:] {
				if e.comp(r.st, k, "") != first {
					same = false
				}
			}
			if same {
				st.heap[k] = first
				continue
			}
			nv := e.declare(k, e.compSort[k])
			for _, r := range g.rets {
				e.emit("(assert " + implies(r.pc, eq(nv, e.comp(r.st, k, ""))) + ")")
			}
			st.heap[k] = nv
		}
		f.st = st
	}
	f.pc = e.define("after."+fn.Name(), sBool, or(conds...))
	res := fn.Signature.Results()
	if res.Len() == 0 {
		return &Value{Tuple: []*Value{}}
	}
	var outs []*Value
	for i := 0; i < res.Len(); i++ {
		var col []*Value
		for _, r := range g.rets {
			col = append(col, r.results[i])
		}
		outs = append(outs, f.mergeValues(fmt.Sprintf("%s.res%d", fn.Name(), i), res.At(i).Type(), conds, col))
	}
	if res.Len() == 1 {
		return outs[0]
	}
	return &Value{Tuple: outs, Type: res}
}

func (f *Frame) freshOrEmpty(res *types.Tuple) *Value {
	switch res.Len() {
	case 0:
		return &Value{Tuple: []*Value{}}
	case 1:
		return f.freshOf(f.id+".dead", res.At(0).Type())
	}
	return f.freshOf(f.id+".dead", res)
}

// bindParams builds the name environment for a callee contract.
func (f *Frame) calleeEnv(fn *ssa.Function, sig *types.Signature, args, free []*Value) map[string]*Value {
	names := map[string]*Value{}
	if fn != nil {
		for i, p := range fn.Params {
			if i < len(args) {
				names[p.Name()] = args[i]
			}
		}
		for i, fv := range fn.FreeVars {
			if i < len(free) {
				// a captured variable: the name denotes the variable's cell (as in contractEnv)
				names[fv.Name()] = &Value{Loc: f.e.ptrLoc(free[i]), Type: fv.Type().(*types.Pointer).Elem(), T: "VAR"}
			}
		}
	} else {
		off := 0
		if sig.Recv() != nil {
			names[sig.Recv().Name()] = args[0]
			names["recv"] = args[0]
			off = 1
		}
		for i := 0; i < sig.Params().Len() && i+off < len(args); i++ {
			n := sig.Params().At(i).Name()
			if n == "" || n == "_" {
				n = fmt.Sprintf("arg%d", i)
			}
			names[n] = args[i+off]
			names[fmt.Sprintf("arg%d", i)] = args[i+off]
		}
	}
	return names
}

func (f *Frame) bindResults(names map[string]*Value, sig *types.Signature, r *Value) {
	res := sig.Results()
	switch res.Len() {
	case 0:
	case 1:
		names["result"] = r
		names["result0"] = r
		if n := res.At(0).Name(); n != "" && n != "_" {
			names[n] = r
		}
	default:
		for i, x := range r.Tuple {
			names[fmt.Sprintf("result%d", i)] = x
			if n := res.At(i).Name(); n != "" && n != "_" {
				names[n] = x
			}
		}
	}
}

// applyContract: assert requires, havoc frame, assume ensures.
func (f *Frame) applyContract(fc *FuncContract, name string, fn *ssa.Function, sig *types.Signature, args, free []*Value, pos token.Pos) *Value {
	e := f.e
	names := f.calleeEnv(fn, sig, args, free)
	pre := f.st.clone()
	env := &Env{f: f, names: names, st: f.st, old: pre, fnPkg: pkgOf(fn, f.fn)}
	short := name
	if i := strings.LastIndex(short, "."); i >= 0 {
		short = short[i+1:]
	}
	if f.top && f.fc != nil && (f.fc.AssumePre || (e.caseC != nil && e.caseC.AssumePre)) {
		// the function's contract asks for callee preconditions to be assumed, not checked (listed as an assumption)
		e.note(fmt.Sprintf("%s: preconditions of callee %s are assumed, not checked", e.qual(f.fn), name))
		// unlabelled requires clauses (object invariants) are assumed; labelled ones are still checked
		for _, cl := range fc.Requires {
			if cl.Label == "" {
				e.assume(f.pc, env.evalBool(cl.Expr))
			} else if !f.dry {
				for _, g := range env.evalSplit(cl.Expr) {
					e.oblige("pre", short+"."+cl.Label, f.pc, g, fmt.Sprintf("precondition of %s: %s", name, cl.Src), pos, cl.Props)
				}
			}
		}
	} else if !f.dry {
		for k, cl := range fc.Requires {
			lbl := cl.Label
			if lbl == "" {
				lbl = fmt.Sprint(k + 1)
			}
			for _, g := range env.evalSplit(cl.Expr) {
				e.oblige("pre", short+"."+lbl, f.pc, g, fmt.Sprintf("precondition of %s: %s", name, cl.Src), pos, cl.Props)
			}
		}
	}
	// frame
	switch {
	case fc.Pure:
	case !fc.HasMod && fn != nil && inRepo(fn) && len(fn.Blocks) > 0 && !e.mayWrite(fn).all:
		ws := e.mayWrite(fn)
		e.note(fmt.Sprintf("contract of %s has no modifies clause: computed frame (may-write analysis): %s", name, ws))
		e.havocSet(f.st, ws)
		f.havocAlloc()
	case !fc.HasMod:
		e.note(fmt.Sprintf("contract of %s has no modifies clause: everything havocked at its call sites", name))
		for _, k := range sortedKeys(e.compSort) {
			if strings.HasPrefix(k, "LW.") || strings.HasPrefix(k, "LR.") || k == "alloc" || strings.HasPrefix(k, "ITER.") || k == "CH.pending" {
				continue
			}
			e.havocComp(f.st, k)
		}
		e.havocEpoch(f.st)
		f.havocAlloc()
	default:
		for _, m := range fc.Modifies {
			env.st = pre
			env.havocTarget(m, f.st)
		}
		env.st = f.st
		f.havocAlloc()
	}
	for _, h := range fc.Havoc {
		e.havocComp(f.st, h)
	}
	var r *Value
	if sig.Results().Len() == 0 {
		r = &Value{Tuple: []*Value{}}
	} else if sig.Results().Len() == 1 {
		r = f.freshOf(f.id+"."+short+".res", sig.Results().At(0).Type())
	} else {
		r = f.freshOf(f.id+"."+short+".res", sig.Results())
	}
	f.assumeAllocDeep(r)
	f.bindResults(names, sig, r)
	env.st = f.st
	for _, cl := range fc.Ensures {
		e.assume(f.pc, env.evalBool(cl.Expr))
	}
	if fc.Trusted {
		e.note("trusted contract (assumed, not verified): " + name)
	}
	return r
}

func pkgOf(fn *ssa.Function, fallback *ssa.Function) *types.Package {
	if fn != nil && fn.Pkg != nil {
		return fn.Pkg.Pkg
	}
	if fn != nil && fn.Parent() != nil {
		return pkgOf(fn.Parent(), fallback)
	}
	if fallback != nil {
		return pkgOf(fallback, nil)
	}
	return nil
}

// ---- interface method calls ----

func (f *Frame) invoke(c *ssa.CallCommon, args []*Value, pos token.Pos) *Value {
	e := f.e
	recv := f.val(c.Value)
	itName := namedPathShort(c.Value.Type())
	key := itName + "." + c.Method.Name()
	all := append([]*Value{recv}, args...)
	if fc := e.ct.Funcs[key]; fc != nil {
		sig := c.Signature()
		// give the receiver a name
		names := types.NewSignatureType(types.NewVar(token.NoPos, nil, "recv", c.Value.Type()), nil, nil, sig.Params(), sig.Results(), sig.Variadic())
		return f.applyContract(fc, key, nil, names, all, nil, pos)
	}
	if impls, ok := e.ct.Closed[itName]; ok {
		return f.dispatch(c, recv, args, impls, pos)
	}
	switch key {
	case "error.Error":
		return f.freshOf(f.id+".errstr", types.Typ[types.String])
	}
	e.note(fmt.Sprintf("%s: interface call %s without contract: everything havocked", e.qual(f.fn), key))
	return f.havocCall(c, pos)
}

// dispatch encodes a call on a closed interface as a case split over the implementing types.
func (f *Frame) dispatch(c *ssa.CallCommon, recv *Value, args []*Value, impls []string, pos token.Pos) *Value {
	e := f.e
	basePC, baseSt := f.pc, f.st
	type br struct {
		pc  string
		st  *State
		res *Value
	}
	var brs []br
	var conds []string
	for _, tn := range impls {
		t := e.lookupType(tn, pkgOf(f.fn, nil))
		if t == nil {
			e.fail("closed interface implementation %s not found", tn)
		}
		cond := e.define("is."+tn, sBool, e.anyIs(recv.T, t))
		conds = append(conds, cond)
		ms := e.prog.SSA.MethodSets.MethodSet(t)
		sel := ms.Lookup(c.Method.Pkg(), c.Method.Name())
		if sel == nil {
			e.fail("type %s has no method %s", tn, c.Method.Name())
		}
		m := e.prog.SSA.MethodValue(sel)
		f.pc, f.st = and(basePC, cond), baseSt.clone()
		rv := e.unwrapAny(recv.T, t)
		res := f.callStatic(m, append([]*Value{rv}, args...), nil, c, pos)
		brs = append(brs, br{f.pc, f.st, res})
	}
	// the value is one of the closed set (or nil, which would panic)
	f.safety("nil", or(conds...), "interface value is one of its implementations (not nil)", pos)
	e.assume(basePC, or(conds...))
	// merge
	var pcs []string
	for _, b := range brs {
		pcs = append(pcs, b.pc)
	}
	names := map[string]bool{}
	for _, b := range brs {
		for k := range b.st.heap {
			names[k] = true
		}
	}
	st := &State{heap: map[string]string{}}
	{
		var sts []*State
		for _, b := range brs {
			sts = append(sts, b.st)
		}
		st.havocs = e.mergeEpoch(sts)
	}
	var ks []string
	for k := range names {
		ks = append(ks, k)
	}
	sort.Strings(ks)
	for _, k := range ks {
		first := e.comp(brs[0].st, k, "")
		same := true
		for _, b := range brs[1:] {
			if e.comp(b.st, k, "") != first {
				same = false
			}
		}
		if same {
			st.heap[k] = first
			continue
		}
		nv := e.declare(k, e.compSort[k])
		for _, b := range brs {
			e.emit("(assert " + implies(b.pc, eq(nv, e.comp(b.st, k, ""))) + ")")
		}
		st.heap[k] = nv
	}
	f.st = st
	f.pc = basePC
	rt := f.resultType(c)
	if rt == nil {
		return &Value{Tuple: []*Value{}}
	}
	var col []*Value
	for _, b := range brs {
		col = append(col, b.res)
	}
	return f.mergeValues("dispatch."+c.Method.Name(), rt, pcs, col)
}

// lookupType resolves "*datum.Int", "datum.Int", "int", "string" relative to the loaded program.
func (e *Encoder) lookupType(name string, from *types.Package) types.Type {
	ptr := 0
	for strings.HasPrefix(name, "*") {
		ptr++
		name = name[1:]
	}
	var t types.Type
	if strings.HasPrefix(name, "[]") {
		el := e.lookupType(name[2:], from)
		if el == nil {
			return nil
		}
		t = types.NewSlice(el)
	} else if i := strings.LastIndex(name, "."); i >= 0 {
		pk, tn := name[:i], name[i+1:]
		for _, p := range e.prog.SSA.AllPackages() {
			if shortPkg(p.Pkg.Path()) == pk || p.Pkg.Path() == pk {
				if o := p.Pkg.Scope().Lookup(tn); o != nil {
					if _, ok := o.(*types.TypeName); ok {
						t = o.Type()
						break
					}
				}
			}
		}
	} else {
		if o := types.Universe.Lookup(name); o != nil {
			if _, ok := o.(*types.TypeName); ok {
				t = o.Type()
			}
		}
		if t == nil && from != nil {
			if o := from.Scope().Lookup(name); o != nil {
				if _, ok := o.(*types.TypeName); ok {
					t = o.Type()
				}
			}
		}
	}
	if t == nil {
		return nil
	}
	for ; ptr > 0; ptr-- {
		t = types.NewPointer(t)
	}
	return t
}

// fieldOfFuncValue: the name of the struct field a called function value was loaded from ("" if it was not).
func fieldOfFuncValue(v ssa.Value) string {
	switch x := v.(type) {
	case *ssa.UnOp:
		if fa, ok := x.X.(*ssa.FieldAddr); ok && x.Op == token.MUL {
			if st, ok := fa.X.Type().Underlying().(*types.Pointer).Elem().Underlying().(*types.Struct); ok {
				return st.Field(fa.Field).Name()
			}
		}
	case *ssa.Field:
		if st, ok := x.X.Type().Underlying().(*types.Struct); ok {
			return st.Field(x.Field).Name()
		}
	}
	return ""
}

// recvMethod: "pkg.(*T).M" or "pkg.T.M" -> "T.M"; "" for plain functions.
func recvMethod(name string) string {
	m := shortName(name)
	rest := strings.TrimSuffix(name, "."+m)
	if strings.HasSuffix(rest, ")") {
		if i := strings.LastIndex(rest, "(*"); i >= 0 {
			return rest[i+2:len(rest)-1] + "." + m
		}
		return ""
	}
	if i := strings.LastIndex(rest, "."); i >= 0 && i+1 < len(rest) && rest[i+1] >= 'A' && rest[i+1] <= 'Z' {
		return rest[i+1:] + "." + m
	}
	return ""
}
