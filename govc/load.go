package main

import (
	"fmt"
	"go/token"
	"os"
	"sort"
	"strings"

	"golang.org/x/tools/go/packages"
	"golang.org/x/tools/go/ssa"
	"golang.org/x/tools/go/ssa/ssautil"
)

// Program is the loaded /repo working tree.
type Program struct {
	Fset  *token.FileSet
	Pkgs  []*packages.Package
	SSA   *ssa.Program
	Funcs map[string]*ssa.Function // qualified name -> function (incl. closures "F$1")
	Root  string
}

const modPrefix = "github.com/google/mtail/internal/"

func repoRoot() string {
	if r := os.Getenv("VERIF_REPO"); r != "" {
		return r
	}
	return "/repo"
}

func loadProgram(patterns []string) (*Program, error) {
	root := repoRoot()
	cfg := &packages.Config{
		Mode: packages.NeedName | packages.NeedFiles | packages.NeedCompiledGoFiles | packages.NeedImports |
			packages.NeedDeps | packages.NeedTypes | packages.NeedTypesSizes | packages.NeedSyntax | packages.NeedTypesInfo | packages.NeedModule,
		Dir:        root,
		BuildFlags: []string{"-tags=verif"},
		Env: append(os.Environ(), "GOFLAGS=-mod=mod", "GOPROXY=off", "GOSUMDB=off", "GOTOOLCHAIN=local"),
	}
	pkgs, err := packages.Load(cfg, patterns...)
	if err != nil {
		return nil, err
	}
	var errs []string
	packages.Visit(pkgs, nil, func(p *packages.Package) {
		for _, e := range p.Errors {
			errs = append(errs, e.Error())
		}
	})
	if len(errs) > 0 {
		return nil, fmt.Errorf("package load errors:\n%s", strings.Join(errs, "\n"))
	}
	prog, _ := ssautil.AllPackages(pkgs, ssa.InstantiateGenerics|ssa.GlobalDebug)
	prog.Build()
	p := &Program{Fset: prog.Fset, Pkgs: pkgs, SSA: prog, Funcs: map[string]*ssa.Function{}, Root: root}
	for fn := range ssautil.AllFunctions(prog) {
		if fn.Pkg == nil || !strings.HasPrefix(fn.Pkg.Pkg.Path(), "github.com/google/mtail") {
			continue
		}
		p.Funcs[qualName(fn)] = fn
	}
	return p, nil
}

// qualName gives "metrics.(*Metric).RemoveDatum", "metrics.buildLabelValueKey", "metrics.(*Store).Gc$1".
func qualName(fn *ssa.Function) string {
	if fn.Parent() != nil {
		// closure: name is Parent$N
		return qualName(fn.Parent()) + fn.Name()[strings.LastIndex(fn.Name(), "$"):]
	}
	pkg := ""
	if fn.Pkg != nil {
		pkg = shortPkg(fn.Pkg.Pkg.Path())
	}
	if recv := fn.Signature.Recv(); recv != nil {
		t := recv.Type().String()
		// strip package path
		star := ""
		if strings.HasPrefix(t, "*") {
			star = "*"
			t = t[1:]
		}
		if i := strings.LastIndex(t, "."); i >= 0 {
			t = t[i+1:]
		}
		if star != "" {
			return fmt.Sprintf("%s.(*%s).%s", pkg, t, fn.Name())
		}
		return fmt.Sprintf("%s.%s.%s", pkg, t, fn.Name())
	}
	return pkg + "." + fn.Name()
}

func shortPkg(path string) string {
	if i := strings.LastIndex(path, "/"); i >= 0 {
		return path[i+1:]
	}
	return path
}

func (p *Program) sortedFuncNames() []string {
	var ns []string
	for n := range p.Funcs {
		ns = append(ns, n)
	}
	sort.Strings(ns)
	return ns
}
