package main

import (
	"fmt"
	"go/token"
	"go/types"
	"strings"

	"golang.org/x/tools/go/ssa"
)

// builtin implements Go's built-in functions.
func (f *Frame) builtin(name string, c *ssa.CallCommon, args []*Value, pos token.Pos) *Value {
	e := f.e
	intT := types.Typ[types.Int]
	switch name {
	case "len":
		x := args[0]
		switch c.Args[0].Type().Underlying().(type) {
		case *types.Slice:
			return term(app("slen", x.T), sInt, intT)
		case *types.Basic:
			return term(app("s.len", x.T), sInt, intT)
		case *types.Map:
			f.guardAccess(x.Guard, false, " (len)", pos)
			mt := c.Args[0].Type().Underlying().(*types.Map)
			_, _, ln := e.mapComps(mt)
			l := e.comp(f.st, ln, arrSort(sInt))
			v := term(ite(eq(x.T, "0"), "0", sel(l, x.T)), sInt, intT)
			e.assume(f.pc, "(>= "+v.T+" 0)")
			return v
		case *types.Chan:
			return f.freshOf("chanlen", intT)
		case *types.Array:
			return term(fmt.Sprint(c.Args[0].Type().Underlying().(*types.Array).Len()), sInt, intT)
		case *types.Pointer:
			return term(fmt.Sprint(c.Args[0].Type().Underlying().(*types.Pointer).Elem().Underlying().(*types.Array).Len()), sInt, intT)
		}
	case "cap":
		if _, ok := c.Args[0].Type().Underlying().(*types.Slice); ok {
			return term(app("scap", args[0].T), sInt, intT)
		}
	case "min", "max":
		op := "<="
		if name == "max" {
			op = ">="
		}
		r := args[0]
		for _, a := range args[1:] {
			if r.Sort != sInt {
				e.fail("min/max on non-integers")
			}
			r = term(ite(app(op, r.T, a.T), r.T, a.T), sInt, r.Type)
		}
		return r
	case "append":
		return f.appendOp(c, args)
	case "copy":
		return f.copyOp(c, args)
	case "delete":
		f.guardAccess(args[0].Guard, true, " (map entry)", pos)
		f.mapDelete(args[0], args[1], c.Args[0].Type())
		return &Value{Tuple: []*Value{}}
	case "close":
		if f.top && !f.dry && f.fc != nil && len(f.fc.Asserts) > 0 {
			f.siteAsserts("close", pos, args...)
		}
		f.closeChan(args[0], pos)
		return &Value{Tuple: []*Value{}}
	case "print", "println":
		return &Value{Tuple: []*Value{}}
	case "recover":
		return term("ANil", sAny, types.NewInterfaceType(nil, nil))
	}
	e.fail("unsupported builtin %s on %v", name, c.Args[0].Type())
	return nil
}

// rangeCopy returns a fresh array equal to dst except positions [lo, lo+n) which hold src[so..so+n).
func (e *Encoder) rangeCopy(elemSort, dst, lo, n, src, so string) string {
	na := e.declare("arrcopy", arrSort(elemSort))
	e.assume("true", fmt.Sprintf("(forall ((k Int)) (! (= (select %s k) (ite (and (<= %s k) (< k (+ %s %s))) (select %s (+ %s (- k %s))) (select %s k))) :pattern ((select %s k))))",
		na, lo, lo, n, src, so, lo, dst, na))
	return na
}

func (f *Frame) appendOp(c *ssa.CallCommon, args []*Value) *Value {
	e := f.e
	s, t := args[0], args[1]
	st := c.Args[0].Type().Underlying().(*types.Slice)
	es := e.sorts.sortOf(st.Elem())
	cn := e.elemComp(st.Elem())
	E := e.comp(f.st, cn, arr2Sort(es))
	var n, srcArr, srcOff string
	if t.Sort == sStr { // append([]byte, string...)
		n = app("s.len", t.T)
		tmp := e.declare("strarr", arrSort(sInt))
		e.assume("true", eq(app("bytesN", tmp, "0", n), t.T))
		srcArr, srcOff = tmp, "0"
	} else {
		n = e.define("app.n", sInt, app("slen", t.T))
		srcArr, srcOff = sel(E, app("sarr", t.T)), app("soff", t.T)
	}
	ln, cp, off, ar := app("slen", s.T), app("scap", s.T), app("soff", s.T), app("sarr", s.T)
	// fast path: append(s, x) with a single element (the varargs array [1]T built by the compiler)
	if m := litSliceRe.FindStringSubmatch(t.T); m != nil && m[3] == "1" {
		elem := sel(sel(E, m[1]), m[2])
		newLen := e.define("app.len", sInt, app("+", ln, "1"))
		inplace := e.define("app.inplace", sBool, and(app("<=", newLen, cp), not(eq(ar, "0"))))
		na := e.allocRef(f.st, f.pc, f.id+".app.arr")
		nc := e.declare("app.cap", sInt)
		e.assume("true", app(">=", nc, newLen))
		grown := e.declare("app.grown", arrSort(es))
		e.assume("true", fmt.Sprintf("(forall ((k Int)) (! (=> (and (<= 0 k) (< k %s)) (= (select %s k) (select %s (idx %s k)))) :pattern ((select %s k))))",
			ln, grown, sel(E, ar), s.T, grown))
		e.assume("true", eq(sel(grown, ln), elem))
		res := e.define("app.res", sSlice, ite(inplace, app("mk-slice", ar, off, newLen, cp), app("mk-slice", na, "0", newLen, nc)))
		e.setComp(f.st, cn, ite(inplace, store(E, ar, store(sel(E, ar), app("idx", s.T, ln), elem)), store(E, na, grown)))
		return term(res, sSlice, c.Args[0].Type())
	}
	newLen := e.define("app.len", sInt, app("+", ln, n))
	inplace := e.define("app.inplace", sBool, and(app("<=", newLen, cp), not(eq(ar, "0"))))
	noop := eq(n, "0")
	// in-place branch
	inArr := e.rangeCopy(es, sel(E, ar), app("+", off, ln), n, srcArr, srcOff)
	// growth branch
	na := e.allocRef(f.st, f.pc, f.id+".app.arr")
	nc := e.declare("app.cap", sInt)
	e.assume("true", app(">=", nc, newLen))
	grown := e.declare("app.grown", arrSort(es))
	e.assume("true", fmt.Sprintf("(forall ((k Int)) (! (= (select %s k) (ite (< k %s) (select %s (idx %s k)) (select %s (+ %s (- k %s))))) :pattern ((select %s k))))",
		grown, ln, sel(E, ar), s.T, srcArr, srcOff, ln, grown))
	res := e.define("app.res", sSlice, ite(noop, s.T, ite(inplace, app("mk-slice", ar, off, newLen, cp), app("mk-slice", na, "0", newLen, nc))))
	E2 := ite(noop, E, ite(inplace, store(E, ar, inArr), store(E, na, grown)))
	e.setComp(f.st, cn, E2)
	return term(res, sSlice, c.Args[0].Type())
}

func (f *Frame) copyOp(c *ssa.CallCommon, args []*Value) *Value {
	e := f.e
	d, s := args[0], args[1]
	st := c.Args[0].Type().Underlying().(*types.Slice)
	es := e.sorts.sortOf(st.Elem())
	cn := e.elemComp(st.Elem())
	E := e.comp(f.st, cn, arr2Sort(es))
	var slen, srcArr, srcOff string
	if s.Sort == sStr {
		slen = app("s.len", s.T)
		tmp := e.declare("strarr", arrSort(sInt))
		e.assume("true", eq(app("bytesN", tmp, "0", slen), s.T))
		srcArr, srcOff = tmp, "0"
	} else {
		slen = app("slen", s.T)
		srcArr, srcOff = sel(E, app("sarr", s.T)), app("soff", s.T)
	}
	n := e.define("copy.n", sInt, ite(app("<=", app("slen", d.T), slen), app("slen", d.T), slen))
	na := e.rangeCopy(es, sel(E, app("sarr", d.T)), app("soff", d.T), n, srcArr, srcOff)
	e.setComp(f.st, cn, ite(eq(n, "0"), E, store(E, app("sarr", d.T), na)))
	return term(n, sInt, types.Typ[types.Int])
}

// ---- locks (ghost state) ----

func (e *Encoder) lockComps(l *Loc) (w, r, idx string) {
	name := l.Comp
	if name == "" {
		name = e.cellComp(l.Type)
	}
	for _, p := range l.Path {
		name += "." + p.Field
	}
	return "LW." + name, "LR." + name, l.Idx[0]
}

func (f *Frame) lockOp(op string, recv *Value, pos token.Pos) {
	e := f.e
	l := e.ptrLoc(recv)
	wn, rn, idx := e.lockComps(l)
	w := e.comp(f.st, wn, arrSort(sBool))
	r := e.comp(f.st, rn, arrSort(sInt))
	short := strings.TrimPrefix(wn, "LW.")
	e.assume("true", app(">=", sel(r, idx), "0")) // a read-lock count is a natural number
	if (op == "Lock" || op == "RLock") && e.guardsOn && !f.dry {
		f.interfere(l, sel(w, idx), app(">", sel(r, idx), "0"), idx)
	}
	switch op {
	case "Lock":
		if !f.dry {
			e.oblige("lock", "acquire", f.pc, and(not(sel(w, idx)), eq(sel(r, idx), "0")), "Lock of "+short+": not already held by this goroutine (self-deadlock)", pos, nil)
		}
		e.setComp(f.st, wn, store(w, idx, "true"))
	case "Unlock":
		if !f.dry {
			e.oblige("lock", "release", f.pc, sel(w, idx), "Unlock of "+short+": write lock is held", pos, nil)
		}
		e.setComp(f.st, wn, store(w, idx, "false"))
	case "RLock":
		if !f.dry {
			e.oblige("lock", "racquire", f.pc, not(sel(w, idx)), "RLock of "+short+": write lock not held by this goroutine", pos, nil)
		}
		e.setComp(f.st, rn, store(r, idx, app("+", sel(r, idx), "1")))
	case "RUnlock":
		if !f.dry {
			e.oblige("lock", "rrelease", f.pc, app(">", sel(r, idx), "0"), "RUnlock of "+short+": read lock is held", pos, nil)
		}
		f.lockCover(rn, idx, pos)
		e.setComp(f.st, rn, store(r, idx, app("-", sel(r, idx), "1")))
	}
}

// ---- standard library functions with built-in semantics ----

func (f *Frame) stdBuiltin(name string, fn *ssa.Function, args []*Value, c *ssa.CallCommon, pos token.Pos) (*Value, bool) {
	e := f.e
	none := &Value{Tuple: []*Value{}}
	timeT := func() types.Type { return e.lookupType("time.Time", nil) }
	switch name {
	case "sync.(*RWMutex).Lock", "sync.(*Mutex).Lock":
		f.lockOp("Lock", args[0], pos)
		return none, true
	case "sync.(*RWMutex).Unlock", "sync.(*Mutex).Unlock":
		f.lockOp("Unlock", args[0], pos)
		return none, true
	case "sync.(*RWMutex).RLock":
		f.lockOp("RLock", args[0], pos)
		return none, true
	case "sync.(*RWMutex).RUnlock":
		f.lockOp("RUnlock", args[0], pos)
		return none, true
	case "atomic.LoadInt64", "atomic.LoadUint64", "atomic.LoadInt32", "atomic.LoadUint32":
		v := e.load(f.st, e.ptrLoc(args[0]))
		f.atomicAccess(args[0])
		return v, true
	case "atomic.StoreInt64", "atomic.StoreUint64", "atomic.StoreInt32", "atomic.StoreUint32":
		e.storeLoc(f.st, e.ptrLoc(args[0]), args[1])
		f.atomicAccess(args[0])
		return none, true
	case "atomic.AddInt64", "atomic.AddUint64", "atomic.AddInt32", "atomic.AddUint32":
		l := e.ptrLoc(args[0])
		old := e.load(f.st, l)
		nv := term(e.define("atomic.add", sInt, app("+", old.T, args[1].T)), sInt, old.Type)
		e.storeLoc(f.st, l, nv)
		f.atomicAccess(args[0])
		return nv, true
	case "time.Now":
		v := f.freshOf("now", timeT())
		e.assume("true", not(eq(v.T, timeZeroNs)))
		return v, true
	case "time.Time.IsZero":
		return term(eq(args[0].T, timeZeroNs), sBool, types.Typ[types.Bool]), true
	case "time.Time.Before":
		return term(app("<", args[0].T, args[1].T), sBool, types.Typ[types.Bool]), true
	case "time.Time.After":
		return term(app(">", args[0].T, args[1].T), sBool, types.Typ[types.Bool]), true
	case "time.Time.Equal":
		return term(eq(args[0].T, args[1].T), sBool, types.Typ[types.Bool]), true
	case "time.Time.Sub":
		e.note("time.Time.Sub does not saturate (Duration arithmetic is mathematical)")
		return term(app("-", args[0].T, args[1].T), sInt, fn.Signature.Results().At(0).Type()), true
	case "time.Time.UnixNano":
		return term(args[0].T, sInt, types.Typ[types.Int64]), true
	case "time.Time.Unix":
		return term(app("div", args[0].T, "1000000000"), sInt, types.Typ[types.Int64]), true
	case "time.Time.UTC", "time.Time.Local", "time.Time.Round":
		return term(args[0].T, sInt, timeT()), true
	case "time.Unix":
		return term(app("+", app("*", args[0].T, "1000000000"), args[1].T), sInt, timeT()), true
	case "time.Time.In":
		return term(args[0].T, sInt, timeT()), true // the same instant
	case "time.Time.Year":
		return term(app("yearOf", args[0].T), sInt, types.Typ[types.Int]), true
	case "time.Time.AddDate":
		return term(app("addDate", args[0].T, args[1].T, args[2].T, args[3].T), sInt, timeT()), true
	case "time.Duration.Seconds":
		return term(app("i2f", app("div", args[0].T, "1000000000")), sF64, types.Typ[types.Float64]), true
	case "math.IsInf":
		x, sg := args[0].T, args[1].T
		pos1 := and(app("fp.isInfinite", x), app("fp.isPositive", x))
		neg1 := and(app("fp.isInfinite", x), app("fp.isNegative", x))
		return term(ite(app(">", sg, "0"), pos1, ite(app("<", sg, "0"), neg1, app("fp.isInfinite", x))), sBool, types.Typ[types.Bool]), true
	case "math.IsNaN":
		return term(app("fp.isNaN", args[0].T), sBool, types.Typ[types.Bool]), true
	case "math.Inf":
		return term(ite(app(">=", args[0].T, "0"), "(_ +oo 11 53)", "(_ -oo 11 53)"), sF64, types.Typ[types.Float64]), true
	case "math.NaN":
		return term("(_ NaN 11 53)", sF64, types.Typ[types.Float64]), true
	case "math.Float64bits":
		return term(app("f64bits", args[0].T), sInt, types.Typ[types.Uint64]), true
	case "math.Float64frombits":
		return term(app("f64frombits", args[0].T), sF64, types.Typ[types.Float64]), true
	case "math.Mod":
		return term(app("fmod", args[0].T, args[1].T), sF64, types.Typ[types.Float64]), true
	case "math.Pow":
		return term(app("fpow", args[0].T, args[1].T), sF64, types.Typ[types.Float64]), true
	case "glog.V":
		return f.freshOf("glogv", fn.Signature.Results().At(0).Type()), true
	case "expvar.(*Int).Add":
		cn := "EV.int"
		cur := e.comp(f.st, cn, arrSort(sInt))
		e.setComp(f.st, cn, store(cur, args[0].T, app("+", sel(cur, args[0].T), args[1].T)))
		return none, true
	case "expvar.(*Map).Add":
		cn := "EV.map"
		cur := e.comp(f.st, cn, arrSort(arrSortK(sStr, sInt)))
		inner := sel(cur, args[0].T)
		e.setComp(f.st, cn, store(cur, args[0].T, store(inner, args[1].T, app("+", sel(inner, args[1].T), args[2].T))))
		return none, true
	}
	if strings.HasPrefix(name, "glog.") {
		return f.freshOrEmpty(fn.Signature.Results()), true
	}
	return nil, false
}

// atomicAccess is a hook for the lock-discipline analysis (C11).
func (f *Frame) atomicAccess(p *Value) {}

// ---- channels, goroutines (ghost state; see DESIGN §3.3/§3.4) ----

func (f *Frame) chanInit(r string) {
	e := f.e
	e.setComp(f.st, "CH.closed", store(e.comp(f.st, "CH.closed", arrSort(sBool)), r, "false"))
	e.setComp(f.st, "CH.nsent", store(e.comp(f.st, "CH.nsent", arrSort(sInt)), r, "0"))
	e.setComp(f.st, "CH.nrecv", store(e.comp(f.st, "CH.nrecv", arrSort(sInt)), r, "0"))
	e.setComp(f.st, "CH.pending", store(e.comp(f.st, "CH.pending", arrSort(sInt)), r, "0"))
}

func (f *Frame) chanValsComp(ct types.Type) (string, string) {
	el := ct.Underlying().(*types.Chan).Elem()
	return "CH.vals." + f.e.sorts.typeStr(el), f.e.sorts.sortOf(el)
}

func (f *Frame) send(ch, x *Value, pos token.Pos) {
	e := f.e
	closed := e.comp(f.st, "CH.closed", arrSort(sBool))
	if !f.dry {
		e.oblige("chan", "send-open", f.pc, not(sel(closed, ch.T)), "send on a channel that has not been closed", pos, nil)
	}
	if x.Loc != nil || x.Fn != nil {
		e.fail("send of static value")
	}
	vn, vs := f.chanValsComp(ch.Type)
	vals := e.comp(f.st, vn, arrSort(arrSort(vs)))
	ns := e.comp(f.st, "CH.nsent", arrSort(sInt))
	n := sel(ns, ch.T)
	e.setComp(f.st, vn, store(vals, ch.T, store(sel(vals, ch.T), n, x.T)))
	e.setComp(f.st, "CH.nsent", store(ns, ch.T, app("+", n, "1")))
}

func (f *Frame) closeChan(ch *Value, pos token.Pos) {
	e := f.e
	closed := e.comp(f.st, "CH.closed", arrSort(sBool))
	if !f.dry {
		e.oblige("chan", "close-open", f.pc, not(sel(closed, ch.T)), "close of a channel that has not been closed", pos, nil)
	}
	e.setComp(f.st, "CH.closed", store(closed, ch.T, "true"))
}

// recv: `<-ch` / `v, ok := <-ch`.
func (f *Frame) recv(i *ssa.UnOp, ch *Value) {
	e := f.e
	el := i.X.Type().Underlying().(*types.Chan).Elem()
	pend := e.comp(f.st, "CH.pending", arrSort(sInt))
	// hand-off rule: a channel with a pending producer task delivers that task's sequence
	if task := f.pendingTask(ch); task != nil {
		f.recvFromTask(i, ch, task)
		return
	}
	_ = pend
	v := f.freshOf(f.id+"."+i.Name()+".v", el)
	e.assumeAllocated(f.st, f.pc, v)
	// ghost count of values taken from this channel by plain receives (ntaken): one more for every value delivered
	nr := e.comp(f.st, "CH.taken", arrSort(sInt))
	if i.CommaOk {
		ok := e.declare(f.id+"."+i.Name()+".ok", sBool)
		e.setComp(f.st, "CH.taken", store(nr, ch.T, ite(ok, app("+", sel(nr, ch.T), "1"), sel(nr, ch.T))))
		f.vals[i] = &Value{Type: i.Type(), Tuple: []*Value{v, term(ok, sBool, types.Typ[types.Bool])}}
	} else {
		e.setComp(f.st, "CH.taken", store(nr, ch.T, app("+", sel(nr, ch.T), "1")))
		f.vals[i] = v
	}
}

func (f *Frame) selectStmt(i *ssa.Select) {
	e := f.e
	// nondeterministic choice of case index; received values unconstrained
	idx := e.declare(f.id+"."+i.Name()+".idx", sInt)
	lo := "0"
	if !i.Blocking {
		lo = "(- 1)"
	}
	e.assume(f.pc, and(app("<=", lo, idx), app("<", idx, fmt.Sprint(len(i.States)))))
	tup := []*Value{term(idx, sInt, types.Typ[types.Int]), term(e.declare(f.id+"."+i.Name()+".ok", sBool), sBool, types.Typ[types.Bool])}
	for _, s := range i.States {
		if s.Dir == types.RecvOnly {
			el := s.Chan.Type().Underlying().(*types.Chan).Elem()
			tup = append(tup, f.freshOf(f.id+"."+i.Name()+".rv", el))
		} else {
			e.fail("select with send case is outside the subset")
		}
	}
	f.vals[i] = &Value{Type: i.Type(), Tuple: tup}
}
