package main

import (
	"fmt"
	"os"
	"path/filepath"
	"regexp"
	"sort"
	"strconv"
	"strings"
)

// Clause is one labelled contract clause.
type Clause struct {
	Label string
	Expr  *Node
	Props []string // property tags; empty = inherit from function
	Pos   string   // file:line
	Src   string
}

type FuncContract struct {
	Name     string
	Props    []string
	Trusted  bool
	NoPanic  bool
	Pure     bool // no heap effects at all (calls leave every component unchanged)
	Inline   bool // force inlining at call sites even when a contract exists (contract still verified)
	Lockfree bool // exempt from the lock-balance obligation (function legitimately returns holding/releasing a lock)
	AssumePre bool // preconditions of callees are assumed at their call sites instead of being checked
	AssumeFrame bool // the modifies clause is used by callers but not checked against the body (listed as an assumption)
	Requires []*Clause
	Ensures  []*Clause
	Modifies []*Node
	HasMod   bool
	Loops    map[int][]*Clause
	BackEdge map[int][]*Clause // `loop N backedge`: asserted on every back edge of loop N, may name loop-body locals (latest definition) and defined(x)
	Asserts  []*Clause // site assertions, by call-site selector (Label "site:<callee>#n: expr")
	Uses     []string  // lemmas/axioms available in this function's VCs
	Cases    []*CaseContract
	Pos      string
	File     string
	Havoc    []string // extra components havocked by a trusted function
	NoRead   []*Node  // read frame: locations that must not be read
	Replay   []*Clause // named input expressions whose model values are handed to the replay template
	Unshared []string // parameters that name objects no other goroutine can reach yet (exempt from lock discipline)
	Synth    bool     // synthesised for the lock-discipline sweep (no clauses)
}

type CaseContract struct {
	AssumePre bool // like the function flag, for this case only
	Replay   []*Clause
	Name     string
	Guard    *Node
	Props    []string
	Requires []*Clause
	Ensures  []*Clause
	Uses     []string
}

type SpecFunc struct {
	Name   string
	Params []Binder // Type = SMT sort
	Ret    string
	Body   string // SMT term; empty = uninterpreted
	Rec    bool
	Pos    string
}

type Lemma struct {
	Name    string
	Props   []string
	Induct  string // variable to induct on ("" = direct)
	Formula string // SMT
	Using   []string
	Axiom   bool // assumed, not proved (listed in trusted base)
	Pos     string
	Hints   []string // extra instantiation terms asserted in step
}

// Pred is a named contract-language predicate (expanded at use).
type Pred struct {
	Name   string
	Params []Binder
	Body   *Node
	Pos    string
	File   string
}

type GhostField struct {
	Struct string // qualified named type e.g. "strings.Builder"
	Name   string
	Sort   string
}

type Contracts struct {
	Funcs   map[string]*FuncContract
	Specs   map[string]*SpecFunc
	SpecOrd []string
	Lemmas  map[string]*Lemma
	LemOrd  []string
	Ghost   map[string]*GhostField // "strings.Builder.content"
	Closed  map[string][]string    // interface -> implementing types
	Files   []string
	Guards  map[string]string // guarded_by table: "metrics.Metric.LabelValues" -> lock field expr
	Discipline []string       // package directories swept by the lock-discipline check (C11)
	Preds   map[string]*Pred
	// opaqueRec: render recursive spec functions as uninterpreted (set only while rendering a query variant)
	opaqueRec bool
}

var propTagRe = regexp.MustCompile(`\[((?:C\d+\s*)+)\]`)

func takeProps(s string) (string, []string) {
	m := propTagRe.FindStringSubmatchIndex(s)
	if m == nil {
		return s, nil
	}
	props := strings.Fields(s[m[2]:m[3]])
	return strings.TrimSpace(s[:m[0]] + " " + s[m[1]:]), props
}

func loadContracts(root string, extraDirs ...string) (*Contracts, error) {
	c := &Contracts{Funcs: map[string]*FuncContract{}, Specs: map[string]*SpecFunc{}, Lemmas: map[string]*Lemma{},
		Ghost: map[string]*GhostField{}, Closed: map[string][]string{}, Guards: map[string]string{}, Preds: map[string]*Pred{}}
	var files []string
	filepath.Walk(filepath.Join(root, "internal"), func(p string, info os.FileInfo, err error) error {
		if err == nil && !info.IsDir() && strings.HasPrefix(info.Name(), "contracts_verif") && strings.HasSuffix(info.Name(), ".go") {
			files = append(files, p)
		}
		return nil
	})
	for _, d := range extraDirs {
		ms, _ := filepath.Glob(filepath.Join(d, "*.contracts"))
		files = append(files, ms...)
	}
	sort.Strings(files)
	for _, f := range files {
		if err := c.parseFile(f); err != nil {
			return nil, err
		}
	}
	c.Files = files
	return c, nil
}

type cline struct {
	text string
	pos  string
}

var topKeywords = map[string]bool{"spec": true, "lemma": true, "axiom": true, "ghost": true, "func": true, "closed": true, "guarded": true, "pred": true, "discipline": true}
var clauseKeywords = map[string]bool{"requires": true, "ensures": true, "modifies": true, "loop": true, "use": true, "case": true,
	"assert": true, "using": true, "hint": true, "havoc": true, "noread": true, "unshared": true, "replay": true}

func (c *Contracts) parseFile(path string) error {
	data, err := os.ReadFile(path)
	if err != nil {
		return err
	}
	// gather logical lines: a "//@" line starting with a keyword begins a new item; others continue.
	var items []cline
	for i, l := range strings.Split(string(data), "\n") {
		t := strings.TrimSpace(l)
		if !strings.HasPrefix(t, "//@") {
			continue
		}
		t = strings.TrimSpace(t[3:])
		if t == "" || strings.HasPrefix(t, "--") {
			continue
		}
		if j := strings.Index(t, " -- "); j >= 0 {
			t = strings.TrimSpace(t[:j])
		}
		first := t
		if j := strings.IndexAny(t, " \t"); j >= 0 {
			first = t[:j]
		}
		if topKeywords[first] || clauseKeywords[first] {
			items = append(items, cline{t, fmt.Sprintf("%s:%d", path, i+1)})
		} else if len(items) > 0 {
			items[len(items)-1].text += " " + t
		} else {
			return fmt.Errorf("%s:%d: continuation line without item", path, i+1)
		}
	}
	var curFunc *FuncContract
	var curCase *CaseContract
	var curLemma *Lemma
	for _, it := range items {
		kw, rest := splitFirst(it.text)
		switch kw {
		case "pred":
			// pred wf(m *Metric) := expr
			i := strings.Index(rest, ":=")
			j := strings.Index(rest, "(")
			if i < 0 || j < 0 || j > i {
				return fmt.Errorf("%s: bad pred", it.pos)
			}
			pd := &Pred{Name: strings.TrimSpace(rest[:j]), Pos: it.pos, File: path}
			k := strings.LastIndex(rest[:i], ")")
			for _, prm := range strings.Split(rest[j+1:k], ",") {
				fs := strings.Fields(prm)
				if len(fs) == 2 {
					pd.Params = append(pd.Params, Binder{fs[0], fs[1]})
				}
			}
			body, err := parseExpr(strings.TrimSpace(rest[i+2:]))
			if err != nil {
				return fmt.Errorf("%s: %v", it.pos, err)
			}
			pd.Body = body
			if prev, dup := c.Preds[pd.Name]; dup && prev.Body.String() != body.String() {
				// predicate names are global across packages: a second, different definition would silently rebind
				// every use of the first
				return fmt.Errorf("%s: predicate %s is already defined differently elsewhere", it.pos, pd.Name)
			}
			c.Preds[pd.Name] = pd
			curFunc, curLemma = nil, nil
		case "spec":
			sf, err := parseSpec(rest)
			if err != nil {
				return fmt.Errorf("%s: %v", it.pos, err)
			}
			sf.Pos = it.pos
			if _, dup := c.Specs[sf.Name]; dup {
				return fmt.Errorf("%s: duplicate spec %s", it.pos, sf.Name)
			}
			c.Specs[sf.Name] = sf
			c.SpecOrd = append(c.SpecOrd, sf.Name)
			curFunc, curLemma = nil, nil
		case "lemma", "axiom":
			rest, props := takeProps(rest)
			i := strings.Index(rest, ":")
			if i < 0 {
				return fmt.Errorf("%s: lemma needs ':'", it.pos)
			}
			head := strings.Fields(rest[:i])
			lm := &Lemma{Name: head[0], Props: props, Formula: strings.TrimSpace(rest[i+1:]), Pos: it.pos, Axiom: kw == "axiom"}
			if len(head) >= 3 && head[1] == "induct" {
				lm.Induct = head[2]
			}
			c.Lemmas[lm.Name] = lm
			c.LemOrd = append(c.LemOrd, lm.Name)
			curLemma, curFunc = lm, nil
		case "using":
			if curLemma == nil {
				return fmt.Errorf("%s: 'using' outside lemma", it.pos)
			}
			for _, u := range strings.Split(rest, ",") {
				curLemma.Using = append(curLemma.Using, strings.TrimSpace(u))
			}
		case "hint":
			if curLemma == nil {
				return fmt.Errorf("%s: 'hint' outside lemma", it.pos)
			}
			curLemma.Hints = append(curLemma.Hints, rest)
		case "ghost":
			// ghost field strings.Builder.content Str
			fs := strings.Fields(rest)
			if len(fs) < 3 || fs[0] != "field" {
				return fmt.Errorf("%s: bad ghost decl", it.pos)
			}
			j := strings.LastIndex(fs[1], ".")
			c.Ghost[fs[1]] = &GhostField{Struct: fs[1][:j], Name: fs[1][j+1:], Sort: strings.Join(fs[2:], " ")}
		case "closed":
			// closed datum.Datum = *datum.Int, *datum.Float
			i := strings.Index(rest, "=")
			name := strings.TrimSpace(rest[:i])
			for _, t := range strings.Split(rest[i+1:], ",") {
				c.Closed[name] = append(c.Closed[name], strings.TrimSpace(t))
			}
		case "guarded":
			// guarded metrics.Metric.LabelValues by RWMutex
			fs := strings.Fields(rest)
			if len(fs) == 2 && fs[1] == "atomic" {
				c.Guards[fs[0]] = "atomic"
				break
			}
			if len(fs) != 3 || fs[1] != "by" {
				return fmt.Errorf("%s: bad guarded decl", it.pos)
			}
			c.Guards[fs[0]] = fs[2]
		case "discipline":
			// discipline ./internal/metrics ./internal/exporter ...: packages swept by the lock-discipline check
			c.Discipline = append(c.Discipline, strings.Fields(rest)...)
		case "func":
			rest, props := takeProps(rest)
			fs := strings.Fields(rest)
			if len(fs) == 0 {
				return fmt.Errorf("%s: func needs a name", it.pos)
			}
			fc := &FuncContract{Name: fs[0], Props: props, Loops: map[int][]*Clause{}, Pos: it.pos, File: path}
			for _, fl := range fs[1:] {
				switch fl {
				case "trusted":
					fc.Trusted = true
				case "nopanic":
					fc.NoPanic = true
				case "pure":
					fc.Pure = true
				case "inline":
					fc.Inline = true
				case "lockfree":
					fc.Lockfree = true
				case "assumepre":
					fc.AssumePre = true
				case "assumeframe":
					fc.AssumeFrame = true
				default:
					return fmt.Errorf("%s: unknown func flag %q", it.pos, fl)
				}
			}
			if prev, dup := c.Funcs[fc.Name]; dup {
				// a further `func` item for the same function (typically more `case`s in another file) extends it
				if len(prev.Cases) == 0 && len(fc.Props) > 0 {
					return fmt.Errorf("%s: duplicate contract for %s", it.pos, fc.Name)
				}
				for _, p := range fc.Props {
					if !hasProp(prev.Props, p) {
						prev.Props = append(prev.Props, p)
					}
				}
				fc = prev
			}
			c.Funcs[fc.Name] = fc
			curFunc, curCase, curLemma = fc, nil, nil
		case "case":
			if curFunc == nil {
				return fmt.Errorf("%s: case outside func", it.pos)
			}
			rest, props := takeProps(rest)
			i := strings.Index(rest, ":")
			g, err := parseExpr(strings.TrimSpace(rest[i+1:]))
			if err != nil {
				return fmt.Errorf("%s: %v", it.pos, err)
			}
			cname, cassume := strings.TrimSpace(rest[:i]), false
			if fs := strings.Fields(cname); len(fs) == 2 && fs[1] == "assumepre" {
				cname, cassume = fs[0], true
			}
			curCase = &CaseContract{Name: cname, Guard: g, Props: props, AssumePre: cassume}
			curFunc.Cases = append(curFunc.Cases, curCase)
		case "requires", "ensures", "assert", "replay":
			if curFunc == nil {
				return fmt.Errorf("%s: %s outside func", it.pos, kw)
			}
			cl, err := parseClause(rest, it.pos)
			if err != nil {
				return err
			}
			switch {
			case kw == "replay":
				// replay <name>: <expr> - an input of the function, for counterexample replay (value taken from the model)
				if curCase != nil {
					curCase.Replay = append(curCase.Replay, cl)
				} else {
					curFunc.Replay = append(curFunc.Replay, cl)
				}
			case kw == "assert":
				curFunc.Asserts = append(curFunc.Asserts, cl)
			case curCase != nil && kw == "requires":
				curCase.Requires = append(curCase.Requires, cl)
			case curCase != nil:
				curCase.Ensures = append(curCase.Ensures, cl)
			case kw == "requires":
				curFunc.Requires = append(curFunc.Requires, cl)
			default:
				curFunc.Ensures = append(curFunc.Ensures, cl)
			}
		case "unshared":
			if curFunc == nil {
				return fmt.Errorf("%s: unshared outside func", it.pos)
			}
			for _, n := range strings.FieldsFunc(rest, func(r rune) bool { return r == ',' || r == ' ' }) {
				curFunc.Unshared = append(curFunc.Unshared, n)
			}
		case "modifies":
			if curFunc == nil {
				return fmt.Errorf("%s: modifies outside func", it.pos)
			}
			curFunc.HasMod = true
			if strings.TrimSpace(rest) == "nothing" {
				break
			}
			ns, err := parseExprList(rest)
			if err != nil {
				return fmt.Errorf("%s: %v", it.pos, err)
			}
			curFunc.Modifies = append(curFunc.Modifies, ns...)
		case "noread":
			// read frame: locations the function must not read (provenance of exported values)
			if curFunc == nil {
				return fmt.Errorf("%s: noread outside func", it.pos)
			}
			ns, err := parseExprList(rest)
			if err != nil {
				return fmt.Errorf("%s: %v", it.pos, err)
			}
			curFunc.NoRead = append(curFunc.NoRead, ns...)
		case "havoc":
			if curFunc == nil {
				return fmt.Errorf("%s: havoc outside func", it.pos)
			}
			curFunc.Havoc = append(curFunc.Havoc, strings.Fields(rest)...)
		case "loop":
			if curFunc == nil {
				return fmt.Errorf("%s: loop outside func", it.pos)
			}
			fs := strings.SplitN(rest, " ", 3)
			n, err := strconv.Atoi(fs[0])
			if err != nil || len(fs) < 3 || (fs[1] != "invariant" && fs[1] != "backedge") {
				return fmt.Errorf("%s: expected 'loop N invariant ...' or 'loop N backedge ...'", it.pos)
			}
			cl, err := parseClause(fs[2], it.pos)
			if err != nil {
				return err
			}
			if fs[1] == "backedge" {
				if curFunc.BackEdge == nil {
					curFunc.BackEdge = map[int][]*Clause{}
				}
				curFunc.BackEdge[n] = append(curFunc.BackEdge[n], cl)
			} else {
				curFunc.Loops[n] = append(curFunc.Loops[n], cl)
			}
		case "use":
			fs := strings.Fields(rest)
			if len(fs) < 2 || fs[0] != "lemma" {
				return fmt.Errorf("%s: expected 'use lemma NAME...'", it.pos)
			}
			names := strings.Split(strings.Join(fs[1:], ""), ",")
			if curCase != nil {
				curCase.Uses = append(curCase.Uses, names...)
			} else if curFunc != nil {
				curFunc.Uses = append(curFunc.Uses, names...)
			}
		}
	}
	return nil
}

func splitFirst(s string) (string, string) {
	s = strings.TrimSpace(s)
	if i := strings.IndexAny(s, " \t"); i >= 0 {
		return s[:i], strings.TrimSpace(s[i+1:])
	}
	return s, ""
}

var labelRe = regexp.MustCompile(`^([A-Za-z_][A-Za-z0-9_.\-]*)\s*:\s`)

func parseClause(s, pos string) (*Clause, error) {
	s, props := takeProps(s)
	cl := &Clause{Props: props, Pos: pos}
	if m := labelRe.FindStringSubmatch(s); m != nil && m[1] != "forall" && m[1] != "exists" {
		cl.Label = m[1]
		s = strings.TrimSpace(s[len(m[0]):])
	}
	n, err := parseExpr(s)
	if err != nil {
		return nil, fmt.Errorf("%s: %v", pos, err)
	}
	cl.Expr = n
	cl.Src = s
	return cl, nil
}

// parseSpec: NAME(a Sort, b Sort) Sort [:= body]
func parseSpec(s string) (*SpecFunc, error) {
	i := strings.Index(s, "(")
	if i < 0 {
		return nil, fmt.Errorf("bad spec %q", s)
	}
	sf := &SpecFunc{Name: strings.TrimSpace(s[:i])}
	// find matching paren
	depth, j := 0, i
	for ; j < len(s); j++ {
		if s[j] == '(' {
			depth++
		} else if s[j] == ')' {
			depth--
			if depth == 0 {
				break
			}
		}
	}
	params := s[i+1 : j]
	for _, p := range splitTopLevel(params, ',') {
		p = strings.TrimSpace(p)
		if p == "" {
			continue
		}
		k := strings.IndexAny(p, " \t")
		if k < 0 {
			return nil, fmt.Errorf("bad param %q", p)
		}
		sf.Params = append(sf.Params, Binder{p[:k], strings.TrimSpace(p[k+1:])})
	}
	rest := strings.TrimSpace(s[j+1:])
	if k := strings.Index(rest, ":="); k >= 0 {
		sf.Ret = strings.TrimSpace(rest[:k])
		sf.Body = strings.TrimSpace(rest[k+2:])
	} else {
		sf.Ret = rest
	}
	sf.Rec = sf.Body != "" && containsSymbol(sf.Body, sf.Name)
	return sf, nil
}

func splitTopLevel(s string, sep byte) []string {
	var out []string
	depth, last := 0, 0
	for i := 0; i < len(s); i++ {
		switch s[i] {
		case '(':
			depth++
		case ')':
			depth--
		case sep:
			if depth == 0 {
				out = append(out, s[last:i])
				last = i + 1
			}
		}
	}
	out = append(out, s[last:])
	return out
}

// containsSymbol reports whether SMT text mentions symbol name as a whole token.
func containsSymbol(text, name string) bool {
	idx := 0
	for {
		i := strings.Index(text[idx:], name)
		if i < 0 {
			return false
		}
		i += idx
		before := i == 0 || strings.ContainsRune(" ()\n\t", rune(text[i-1]))
		after := i+len(name) == len(text) || strings.ContainsRune(" ()\n\t", rune(text[i+len(name)]))
		if before && after {
			return true
		}
		idx = i + len(name)
	}
}

// specDecls returns SMT definitions for the spec functions transitively mentioned by text.
func (c *Contracts) specDecls(mentions func(string) bool) string {
	need := map[string]bool{}
	changed := true
	for changed {
		changed = false
		for _, n := range c.SpecOrd {
			if need[n] {
				continue
			}
			used := mentions(n)
			if !used {
				for m := range need {
					if containsSymbol(c.Specs[m].Body, n) {
						used = true
						break
					}
				}
			}
			if used {
				need[n] = true
				changed = true
			}
		}
	}
	var b strings.Builder
	// dependency order (a spec is defined after the specs its body mentions)
	var order []string
	state := map[string]int{}
	var visit func(n string)
	visit = func(n string) {
		if state[n] != 0 {
			return
		}
		state[n] = 1
		for _, m := range c.SpecOrd {
			if m != n && need[m] && containsSymbol(c.Specs[n].Body, m) {
				visit(m)
			}
		}
		state[n] = 2
		order = append(order, n)
	}
	for _, n := range c.SpecOrd {
		if need[n] {
			visit(n)
		}
	}
	for _, n := range order {
		sf := c.Specs[n]
		var ps []string
		for _, p := range sf.Params {
			ps = append(ps, fmt.Sprintf("(%s %s)", p.Name, p.Type))
		}
		switch {
		case sf.Body == "":
			var ss []string
			for _, p := range sf.Params {
				ss = append(ss, p.Type)
			}
			fmt.Fprintf(&b, "(declare-fun %s (%s) %s)\n", sf.Name, strings.Join(ss, " "), sf.Ret)
		case sf.Rec && c.opaqueRec:
			// recursive definitions withheld (sound: fewer facts); the solver then relies on lemmas instead of unfolding
			var ss []string
			for _, p := range sf.Params {
				ss = append(ss, p.Type)
			}
			fmt.Fprintf(&b, "(declare-fun %s (%s) %s)\n", sf.Name, strings.Join(ss, " "), sf.Ret)
		case sf.Rec:
			fmt.Fprintf(&b, "(define-fun-rec %s (%s) %s %s)\n", sf.Name, strings.Join(ps, " "), sf.Ret, sf.Body)
		default:
			fmt.Fprintf(&b, "(define-fun %s (%s) %s %s)\n", sf.Name, strings.Join(ps, " "), sf.Ret, sf.Body)
		}
	}
	return b.String()
}
