package main

import (
	"context"
	"fmt"
	"os"
	"path/filepath"
)

// dischargeCanary runs a vacuity canary: a goal that must NOT be provable (e.g. `false` under the preconditions).
func dischargeCanary(o *Obligation, opts solveOpts) {
	q := o.query()
	o.Bytes = len(q)
	file := filepath.Join(opts.outDir, fileSafe(o.Name)+".smt2")
	if err := os.WriteFile(file, []byte(q), 0o644); err != nil {
		o.Status, o.Output = "error", err.Error()
		return
	}
	o.Status = "unknown"
	nErr := 0
	for _, sp := range []solverSpec{solvers[0], solvers[1]} {
		procSem <- struct{}{}
		a := runSolver(context.Background(), sp, file, 1, opts.seed)
		<-procSem
		o.Output += fmt.Sprintf("[%s %.2fs] %s\n", a.solver, a.seconds, a.answer)
		if a.seconds > o.Seconds {
			o.Seconds = a.seconds
		}
		switch a.answer {
		case "unsat":
			o.Status, o.Solver = "proved", a.solver // vacuity!
			return
		case "sat":
			o.Status, o.Solver = "failed", a.solver // good: satisfiable
			return
		case "error":
			nErr++
			o.Output += firstLines(a.output, 4) + "\n"
		}
	}
	if nErr == 2 {
		o.Status = "error"
	}
}
