package main

import (
	"fmt"
	"go/types"
	"strings"

	"golang.org/x/tools/go/ssa"
)

// Value is an encoder-level value: an SMT term, a static pointer descriptor, a tuple or a static function value.
type Value struct {
	T     string
	Sort  string
	Type  types.Type
	Loc   *Loc
	Tuple []*Value
	Fn    *ssa.Function
	Free  []*Value
	Iter  *mapIter
	Guard *guardInfo // set on map/slice values (and element addresses) loaded from a `guarded` field (C11)
}

// Loc is a static description of a memory location: a cell of a heap component plus a path into the struct value stored there.
type Loc struct {
	Comp string
	Idx  []string     // 1 index (H./C./G. components) or 2 (E. components: array id, position)
	Path []pathStep   // accessors into nested struct values
	Type types.Type   // type of the value at the location
	Root types.Type   // type of the value stored in the component cell
}

type pathStep struct {
	Field string
	In    types.Type // struct type containing Field
}

type mapIter struct {
	Map  *Value
	Seen string // ghost component name for the seen-set
	Kind string // "map" or "string"
}

func term(t, sort string, ty types.Type) *Value { return &Value{T: t, Sort: sort, Type: ty} }

func (v *Value) String() string {
	switch {
	case v == nil:
		return "<nil>"
	case v.Loc != nil:
		return fmt.Sprintf("loc(%s%v%v)", v.Loc.Comp, v.Loc.Idx, v.Loc.Path)
	case v.Tuple != nil:
		var ss []string
		for _, e := range v.Tuple {
			ss = append(ss, e.String())
		}
		return "(" + strings.Join(ss, ", ") + ")"
	case v.Fn != nil:
		return "func " + v.Fn.Name()
	}
	return v.T
}

// State is the symbolic heap at a program point: component -> current SMT term.
type State struct {
	heap map[string]string
	// epoch: non-empty once "everything" has been havocked on the way to this state (a call without frame, a loop
	// that may write anything).  A heap component first mentioned after that point must not be read at its entry
	// version: it gets one unconstrained version per epoch (Encoder.comp).
	havocs []havocRec
}

// havocRec: on the way to this state the components in ws (nil: all of them) were havocked; ep names the versions
// that components first mentioned afterwards get.
type havocRec struct {
	ws *writeSet
	ep string
}

func (s *State) clone() *State {
	n := &State{heap: make(map[string]string, len(s.heap)), havocs: append([]havocRec(nil), s.havocs...)}
	for k, v := range s.heap {
		n.heap[k] = v
	}
	return n
}

// Obligation is one verification condition.
type Obligation struct {
	Name   string
	Func   string
	Kind   string // post, pre, loop.established, loop.preserved, frame, lock, bounds, nil, lemma, assert, panic, vacuity
	Props  []string
	Prefix int    // number of emitted lines in scope
	PC     string // path condition
	Goal   string
	Desc   string
	Pos    string
	enc    *Encoder
	Block  *ssa.BasicBlock // block of the function under contract the obligation belongs to (nil: whole function)
	Cases  []string        // incoming edge conditions of Block (case-split fallback)
	// results
	Status  string // proved, failed, unknown, error
	Solver  string
	Seconds float64
	Model   string
	Output  string
	Bytes   int
	// MustFail marks vacuity canaries: the obligation is expected NOT to be provable.
	MustFail bool
	// Explicit: the property tags were given for this very obligation or clause (not inherited from the function).
	Explicit bool
	// KnownOpen marks an obligation listed as an open finding in known_findings.txt.
	KnownOpen bool
	// Preamble overrides enc for lemma obligations (self-contained SMT text).
	Standalone string
}

// mergeEpoch: the havoc history of a state merged from several: the common one, or one record covering them all.
func (e *Encoder) mergeEpoch(sts []*State) []havocRec {
	if len(sts) == 0 {
		return nil
	}
	same := true
	for _, s := range sts[1:] {
		if len(s.havocs) != len(sts[0].havocs) {
			same = false
			break
		}
		for i := range s.havocs {
			if s.havocs[i].ep != sts[0].havocs[i].ep {
				same = false
			}
		}
	}
	if same {
		return append([]havocRec(nil), sts[0].havocs...)
	}
	u := newWS()
	for _, s := range sts {
		for _, h := range s.havocs {
			if h.ws == nil {
				return []havocRec{{nil, e.fresh("ep")}}
			}
			u.union(h.ws)
		}
	}
	return []havocRec{{u, e.fresh("ep")}}
}

// havocEpoch marks st as having passed a havoc of every component.
func (e *Encoder) havocEpoch(st *State) { st.havocs = append(st.havocs, havocRec{nil, e.fresh("ep")}) }

// havocSet havocks the known components in ws and records it for components mentioned later.
func (e *Encoder) havocSet(st *State, ws *writeSet) {
	for _, k := range sortedKeys(e.compSort) {
		if strings.HasPrefix(k, "LW.") || strings.HasPrefix(k, "LR.") || k == "alloc" || strings.HasPrefix(k, "ITER.") || k == "CH.pending" {
			continue
		}
		if ws.matches(k) {
			e.havocComp(st, k)
		}
	}
	st.havocs = append(st.havocs, havocRec{ws, e.fresh("ep")})
}
