package main

import (
	"crypto/sha256"
	"encoding/json"
	"flag"
	"fmt"
	"os"
	"path/filepath"
	"sort"
	"strconv"
	"strings"
	"time"
)

const verifDir = "/verif"

// curProp is the property being checked (some obligation kinds exist for one property only).
var curProp string

type knownFinding struct {
	Status     string // open | fixed
	Property   string
	Obligation string
	Text       string
}

// matches: a finding names an obligation exactly, or by its clause label without the trailing site ordinals
// ("f#post.hist.first" covers "f#post.hist.first.19"), so that a finding does not depend on how many return paths
// the function has.
func (kf knownFinding) matches(name string) bool {
	if kf.Obligation == name {
		return true
	}
	if !strings.HasPrefix(name, kf.Obligation+".") {
		return false
	}
	for _, c := range name[len(kf.Obligation)+1:] {
		if !(c >= '0' && c <= '9' || c == '.') {
			return false
		}
	}
	return true
}

func loadKnownFindings() []knownFinding {
	data, err := os.ReadFile(filepath.Join(verifDir, "known_findings.txt"))
	if err != nil {
		return nil
	}
	var out []knownFinding
	for _, l := range strings.Split(string(data), "\n") {
		l = strings.TrimSpace(l)
		if l == "" || strings.HasPrefix(l, "#") {
			continue
		}
		var kf knownFinding
		switch {
		case strings.HasPrefix(l, "open:"):
			kf.Status = "open"
			l = strings.TrimSpace(l[5:])
		case strings.HasPrefix(l, "fixed:"):
			kf.Status = "fixed"
			l = strings.TrimSpace(l[6:])
		default:
			continue
		}
		var rest []string
		for _, w := range strings.Fields(l) {
			switch {
			case strings.HasPrefix(w, "property=") && kf.Property == "":
				kf.Property = w[9:]
			case strings.HasPrefix(w, "obligation=") && kf.Obligation == "":
				kf.Obligation = w[11:]
			default:
				rest = append(rest, w)
			}
		}
		kf.Text = strings.Join(rest, " ")
		out = append(out, kf)
	}
	return out
}

// loadLock reads obligations.lock: property -> set of obligation names that must exist and be discharged.
func loadLock() map[string][]string {
	data, err := os.ReadFile(filepath.Join(verifDir, "obligations.lock"))
	if err != nil {
		return nil
	}
	m := map[string][]string{}
	for _, l := range strings.Split(string(data), "\n") {
		fs := strings.Fields(l)
		if len(fs) == 2 {
			m[fs[0]] = append(m[fs[0]], fs[1])
		}
	}
	return m
}

func hasProp(props []string, p string) bool {
	for _, x := range props {
		if x == p {
			return true
		}
	}
	return false
}

type evidence struct {
	PropertyID  string                 `json:"property_id"`
	Tier        string                 `json:"tier"`
	Seed        int                    `json:"seed"`
	Level       string                 `json:"level"`
	Coverage    map[string]interface{} `json:"coverage"`
	Assumptions []string               `json:"assumptions"`
	WallS       float64                `json:"wall_s"`
	Violations  int                    `json:"violations"`
}

func cmdCheck(args []string) int {
	fs := flag.NewFlagSet("check", flag.ExitOnError)
	prop := fs.String("prop", "", "property id")
	thorough := fs.Bool("thorough", false, "thorough tier")
	only := fs.String("func", "", "only functions whose name contains this")
	timeout := fs.Int("timeout", 0, "solver timeout (s)")
	pin := fs.Bool("pin", false, "rewrite obligations.lock entries of this property from this run")
	verbose := fs.Bool("v", false, "verbose")
	noEvidence := fs.Bool("no-evidence", false, "do not write the evidence file")
	fs.Parse(args)
	if *prop == "" {
		fmt.Fprintln(os.Stderr, "check: --prop required")
		return 2
	}
	t0 := time.Now()
	curProp = *prop
	seed, _ := strconv.Atoi(os.Getenv("VERIF_SEED"))
	tier := "quick"
	if *thorough || os.Getenv("VERIF_TIER") == "thorough" {
		tier = "thorough"
	}
	to := 10
	if tier == "thorough" {
		to = 60
	}
	if *timeout > 0 {
		to = *timeout
	}
	ct, err := loadContracts(repoRoot(), filepath.Join(verifDir, "trusted"))
	if err != nil {
		fmt.Fprintln(os.Stderr, "contract error:", err)
		return 2
	}
	// select functions / lemmas
	var selFuncs []*FuncContract
	pkgDirs := map[string]bool{}
	var names []string
	for n := range ct.Funcs {
		names = append(names, n)
	}
	sort.Strings(names)
	for _, n := range names {
		fc := ct.Funcs[n]
		if fc.Trusted || strings.Contains(n, ":") {
			continue
		}
		if !funcServes(fc, *prop) {
			continue
		}
		if *only != "" && !strings.Contains(n, *only) {
			continue
		}
		selFuncs = append(selFuncs, fc)
		if strings.HasPrefix(fc.File, repoRoot()) {
			rel, _ := filepath.Rel(repoRoot(), filepath.Dir(fc.File))
			pkgDirs["./"+rel] = true
		}
	}
	lemmaSet := map[string]bool{}
	var addLemma func(n string)
	addLemma = func(n string) {
		n = strings.TrimSpace(n)
		if n == "" || lemmaSet[n] {
			return
		}
		lemmaSet[n] = true
		if lm := ct.Lemmas[n]; lm != nil {
			for _, u := range lm.Using {
				addLemma(u)
			}
		}
	}
	for _, n := range ct.LemOrd {
		if hasProp(ct.Lemmas[n].Props, *prop) && (*only == "" || strings.Contains("lemma."+n, *only)) {
			addLemma(n)
		}
	}
	for _, fc := range selFuncs {
		for _, u := range fc.Uses {
			addLemma(u)
		}
		for _, cc := range fc.Cases {
			for _, u := range cc.Uses {
				addLemma(u)
			}
		}
	}
	sweep := *prop == guardProp && len(ct.Discipline) > 0
	if sweep {
		for _, d := range ct.Discipline {
			pkgDirs[d] = true
		}
	}
	if len(selFuncs) == 0 && len(lemmaSet) == 0 && !sweep {
		fmt.Fprintf(os.Stderr, "check: no contracts serve property %s\n", *prop)
		return 2
	}
	var patterns []string
	for d := range pkgDirs {
		patterns = append(patterns, d)
	}
	sort.Strings(patterns)
	var prog *Program
	if len(patterns) > 0 {
		prog, err = loadProgram(patterns)
		if err != nil {
			// the tree does not build: that is not a property verdict
			fmt.Fprintln(os.Stderr, "load error:", err)
			return 2
		}
	}
	lemmaProg = prog
	if sweep && prog != nil {
		// lock-discipline sweep: every function of the listed packages that touches a guarded field, under its own
		// contract when it has one, otherwise under an empty one
		have := map[string]bool{}
		for _, fc := range selFuncs {
			have[fc.Name] = true
		}
		swept := map[string]bool{}
		for _, d := range ct.Discipline {
			swept["github.com/google/mtail/"+strings.TrimPrefix(d, "./")] = true
		}
		st := newSortTable()
		for _, n := range prog.sortedFuncNames() {
			fn := prog.Funcs[n]
			if fn.Pkg == nil || !swept[fn.Pkg.Pkg.Path()] || len(fn.Blocks) == 0 || have[n] || fn.Synthetic != "" {
				continue
			}
			if *only != "" && !strings.Contains(n, *only) {
				continue
			}
			if !accessesGuarded(st, ct.Guards, fn) && !callsGuardedPre(ct, fn) {
				continue
			}
			if pos := prog.Fset.Position(fn.Pos()); filepath.Base(pos.Filename) == "testing.go" {
				continue // test support code compiled into the package (metrics/testing.go)
			}
			fc := ct.Funcs[n]
			if fc != nil && (fc.Trusted || len(fc.Cases) > 0) {
				continue
			}
			if fc == nil {
				fc = &FuncContract{Name: n, Props: []string{guardProp}, Loops: map[int][]*Clause{}, Synth: true}
			}
			selFuncs = append(selFuncs, fc)
			have[n] = true
		}
	}
	tLoad := time.Since(t0).Seconds()
	// generate
	var results []*FuncResult
	var obls []*Obligation
	type genErr struct{ fn, msg string }
	var genErrs []genErr
	notes := map[string]bool{}
	for _, fc := range selFuncs {
		var rs []*FuncResult
		if len(fc.Cases) == 0 {
			rs = append(rs, verifyFunction(prog, ct, fc, nil))
		} else {
			for _, cc := range fc.Cases {
				if len(cc.Props) > 0 && !hasProp(cc.Props, *prop) && !clausesServe(cc.Ensures, *prop) {
					continue
				}
				rs = append(rs, verifyFunction(prog, ct, fc, cc))
			}
		}
		for _, r := range rs {
			if fn := prog.Funcs[fc.Name]; fn != nil {
				r.Hash = funcHash(prog, fc.Name)
			}
			results = append(results, r)
			if r.Err != "" {
				if fc.Synth {
					notes["lock discipline: "+r.Name+" is outside the verifier's subset, its accesses are NOT checked ("+r.Err+")"] = true
					continue
				}
				// a function with a contract of its own (for whatever property) is inside the subset on the unchanged tree:
				// if its obligations can no longer be generated, its lock discipline is no longer established either
				genErrs = append(genErrs, genErr{r.Name, r.Err})
				continue
			}
			for _, o := range r.Obls {
				if sweep && !(o.Explicit || o.MustFail) {
					continue // lock-discipline sweep: only the guard obligations and the preconditions tagged for it
				}
				if hasProp(o.Props, *prop) || (sweep && o.MustFail) {
					obls = append(obls, o)
				}
			}
			for _, n := range r.Notes {
				notes[n] = true
			}
		}
	}
	var lemNames []string
	for n := range lemmaSet {
		lemNames = append(lemNames, n)
	}
	sort.Strings(lemNames)
	for _, n := range lemNames {
		lm := ct.Lemmas[n]
		if lm == nil {
			genErrs = append(genErrs, genErr{"lemma." + n, "unknown lemma"})
			continue
		}
		if lm.Axiom {
			notes["axiom (assumed, not proved): "+n+": "+lm.Formula] = true
			continue
		}
		los, err := lemmaObligations(ct, lm)
		if err != nil {
			genErrs = append(genErrs, genErr{"lemma." + n, err.Error()})
			continue
		}
		for _, o := range los {
			o.Props = []string{*prop}
			obls = append(obls, o)
		}
	}
	tGen := time.Since(t0).Seconds() - tLoad
	// discharge
	outDir := filepath.Join(scratchDir(), "out", *prop)
	os.RemoveAll(outDir)
	os.MkdirAll(outDir, 0o755)
	if *only == "" {
		os.RemoveAll(filepath.Join(scratchDir(), "replay", *prop)) // replay material is per run
	}
	known := loadKnownFindings()
	for _, o := range obls {
		for _, kf := range known {
			if kf.Status == "open" && kf.Property == *prop && kf.matches(o.Name) {
				o.KnownOpen = true // recorded defect: one short attempt is enough (it is expected not to discharge)
			}
		}
	}
	dischargeAll(obls, solveOpts{timeoutS: to, seed: seed, outDir: outDir, all: tier == "thorough"}, 6)
	// verdicts
	lock := loadLock()
	violations, knownHit, toolErrors := 0, []string{}, 0
	var boundedKnown []string
	var lines []string
	byName := map[string]*Obligation{}
	discharged, total, mustFail := 0, 0, 0
	bySolver := map[string]int{}
	solverSecs := 0.0
	replayedFn := map[string]int{}
	report := func(name, why string, o *Obligation) {
		for _, kf := range known {
			if kf.Status == "open" && kf.Property == *prop && kf.matches(name) {
				lines = append(lines, fmt.Sprintf("KNOWN-FINDING: property=%s obligation=%s %s", *prop, name, kf.Text))
				knownHit = append(knownHit, name)
				return
			}
		}
		violations++
		// models and replays cost solver and `go test` time: they are produced for the first violations of a run and
		// once per function (a broken function usually fails many obligations for one reason)
		ro := solveOpts{timeoutS: minInt(to, 6), seed: seed, outDir: outDir}
		fnKey := ""
		if o != nil {
			fnKey = o.Func
		}
		full := violations <= 8 && replayedFn[fnKey] < 2
		var dir string
		if full {
			dir = writeReplay(*prop, name, why, o, ro)
		} else {
			saved := (*Obligation)(nil)
			if o != nil {
				c := *o
				c.Status = "unknown" // no model extraction
				saved = &c
			}
			dir = writeReplay(*prop, name, why, saved, ro)
		}
		suffix := " no-failing-input-found"
		if o != nil && full {
			replayedFn[fnKey]++
			if ok := tryReplay(*prop, dir, o, ro); ok {
				suffix = ""
			}
		}
		lines = append(lines, fmt.Sprintf("VIOLATION property=%s replay=%s obligation=%s%s", *prop, dir, name, suffix))
	}
	for _, o := range obls {
		byName[o.Name] = o
		solverSecs += o.Seconds
		if o.MustFail {
			mustFail++
			if o.Status == "proved" {
				toolErrors++
				lines = append(lines, fmt.Sprintf("TOOL-ERROR vacuity: %s is provable (contradictory preconditions or unreachable exits)", o.Name))
			} else if o.Status == "error" {
				toolErrors++
				lines = append(lines, fmt.Sprintf("TOOL-ERROR solver error on %s: %s", o.Name, firstLines(o.Output, 4)))
			}
			continue
		}
		total++
		switch o.Status {
		case "proved":
			discharged++
			bySolver[o.Solver]++
		case "failed", "unknown":
			report(o.Name, o.Status, o)
		default:
			toolErrors++
			lines = append(lines, fmt.Sprintf("TOOL-ERROR solver error on %s: %s", o.Name, firstLines(o.Output, 6)))
		}
	}
	for _, ge := range genErrs {
		report(ge.fn+"#generate", "obligations could not be generated: "+ge.msg, nil)
	}
	if *only == "" {
		for _, want := range lock[*prop] {
			if incidentalObligation(want) {
				continue // frame / lock-stability / safety obligations depend on temporaries; their set may change harmlessly
			}
			if _, ok := byName[want]; !ok {
				covered := false
				for _, ge := range genErrs {
					if strings.HasPrefix(want, ge.fn+"#") {
						covered = true
					}
				}
				if !covered {
					report(want, "obligation pinned in obligations.lock is no longer generated (contract-target-missing)", nil)
				}
			}
		}
	}
	// bounded stand-ins of this property (never counted as proved; DESIGN §13.8)
	var boundedEv []map[string]interface{}
	if *only == "" {
		boundedTier = tier
		for _, tp := range boundedTemplates(*prop) {
			br := runBounded(*prop, tp, filepath.Join(outDir, "bounded"))
			ent := map[string]interface{}{"harness": "bounded/" + br.File, "package": br.Pkg, "bound": br.Bound, "explored": br.Summary, "seconds": round3(br.Seconds),
				"label": "bounded (a stand-in for an assumption no contract within reach decides; not counted as proved)"}
			if br.ToolError != "" {
				toolErrors++
				lines = append(lines, "TOOL-ERROR "+br.ToolError)
				ent["tool_error"] = br.ToolError
			}
			vnames, knames := []string{}, []string{}
			for _, v := range br.Violations {
				isKnown := false
				for _, kf := range known {
					if kf.Status == "open" && kf.Property == *prop && kf.matches(v.Name) {
						lines = append(lines, fmt.Sprintf("KNOWN-FINDING: property=%s obligation=%s %s", *prop, v.Name, kf.Text))
						knames = append(knames, v.Name)
						isKnown = true
						break
					}
				}
				if isKnown {
					continue
				}
				violations++
				dir := writeBoundedReplay(*prop, v, br, tp)
				lines = append(lines, fmt.Sprintf("VIOLATION property=%s replay=%s obligation=%s", *prop, dir, v.Name))
				vnames = append(vnames, v.Name)
			}
			ent["violations"] = vnames
			ent["known_findings_hit"] = knames
			boundedKnown = append(boundedKnown, knames...)
			boundedEv = append(boundedEv, ent)
		}
	}
	if *pin {
		pinLock(*prop, obls)
	}
	sort.Strings(lines)
	for _, l := range lines {
		fmt.Println(l)
	}
	wall := time.Since(t0).Seconds()
	// evidence
	var fnList []map[string]interface{}
	for _, r := range results {
		fnList = append(fnList, map[string]interface{}{"function": r.Name, "ssa_blocks": r.Blocks, "ssa_instructions": r.Instrs, "source_sha256": r.Hash,
			"obligations_generated": len(r.Obls), "smt_lines": r.Lines, "error": r.Err})
	}
	var samples []map[string]interface{}
	for i, o := range obls {
		if len(samples) >= 8 && !(o.Status != "proved" && !o.MustFail) {
			continue
		}
		if i%maxInt(1, len(obls)/8) != 0 && o.Status == "proved" {
			continue
		}
		samples = append(samples, map[string]interface{}{"obligation": o.Name, "kind": o.Kind, "function": o.Func, "status": o.Status, "solver": o.Solver,
			"seconds": round3(o.Seconds), "smt_bytes": o.Bytes, "what": o.Desc, "source": o.Pos, "must_fail_canary": o.MustFail})
	}
	var assumptions []string
	for n := range notes {
		assumptions = append(assumptions, n)
	}
	sort.Strings(assumptions)
	assumptions = append(standingAssumptions(), assumptions...)
	var trusted []string
	for _, n := range names {
		if ct.Funcs[n].Trusted {
			trusted = append(trusted, "trusted contract: "+n)
		}
	}
	trustedBase := append([]string{
		"go/packages + go/types + go/ssa (x/tools v0.29.0) lower the source faithfully; govc's instruction semantics (DESIGN §3.3)",
		"z3 4.8.12, z3 5.1.0 (z3-new), cvc5 1.0.x are sound for the logics used",
		"hand-off rule for `go producer(c); for x := range c` (DESIGN §3.4)",
	}, trusted...)
	var obNames []string
	for _, o := range obls {
		obNames = append(obNames, o.Name)
	}
	ev := evidence{PropertyID: *prop, Tier: tier, Seed: seed, Level: "proof", WallS: round3(wall), Violations: violations, Assumptions: assumptions,
		Coverage: map[string]interface{}{
			"obligations":              total - len(knownHit),
			"discharged":               discharged,
			"obligations_generated":    total,
			"obligations_open_known_findings": len(knownHit),
			"checker_cmd":              "bin/govc check " + strings.Join(args, " "),
			"trusted_base":             trustedBase,
			"samples":                  samples,
			"functions_under_contract": fnList,
			"by_solver":                bySolver,
			"solver_seconds":           round3(solverSecs),
			"load_seconds":             round3(tLoad),
			"generate_seconds":         round3(tGen),
			"vacuity_canaries":         mustFail,
			"tool_errors":              toolErrors,
			"known_findings_hit":       knownHit,
			"obligation_names":         obNames,
			"solver_timeout_s":         to,
			"explanation":              "every obligation generated from the current /repo source for the contracts tagged with this property was sent to z3, z3-new and cvc5; 'discharged' counts those answered unsat. 'obligations' excludes the obligations listed as OPEN findings in /verif/known_findings.txt (recorded genuine defects, named in known_findings_hit and printed as KNOWN-FINDING lines): the proof-level claim is about the remaining obligations; obligations_generated is the full count",
		}}
	if len(boundedEv) > 0 {
		ev.Coverage["bounded_standins"] = boundedEv
		ev.Coverage["bounded_known_findings_hit"] = boundedKnown
	}
	if !*noEvidence && *only == "" && os.Getenv("VERIF_SCRATCH") == "" {
		os.MkdirAll(filepath.Join(verifDir, "evidence"), 0o755)
		data, _ := json.MarshalIndent(ev, "", " ")
		os.WriteFile(filepath.Join(verifDir, "evidence", *prop+".json"), data, 0o644)
	}
	fmt.Printf("%s %s: %d/%d obligations discharged, %d canaries, %d violations, %d known findings, %d tool errors, %.1fs (load %.1fs, generate %.1fs)\n",
		*prop, tier, discharged, total, mustFail, violations, len(knownHit)+len(boundedKnown), toolErrors, wall, tLoad, tGen)
	if *verbose {
		for _, o := range obls {
			fmt.Printf("  %-8s %-7s %6.2fs %7dB %s\n", o.Status, o.Solver, o.Seconds, o.Bytes, o.Name)
		}
	}
	if violations > 0 {
		return 1
	}
	if toolErrors > 0 {
		return 2
	}
	return 0
}

func maxInt(a, b int) int {
	if a > b {
		return a
	}
	return b
}

func round3(x float64) float64 { return float64(int(x*1000)) / 1000 }

func funcServes(fc *FuncContract, p string) bool {
	if hasProp(fc.Props, p) {
		return true
	}
	if clausesServe(fc.Requires, p) || clausesServe(fc.Ensures, p) || clausesServe(fc.Asserts, p) {
		return true
	}
	for _, cs := range fc.Loops {
		if clausesServe(cs, p) {
			return true
		}
	}
	for _, cc := range fc.Cases {
		if hasProp(cc.Props, p) || clausesServe(cc.Ensures, p) {
			return true
		}
	}
	return false
}

func clausesServe(cs []*Clause, p string) bool {
	for _, c := range cs {
		if hasProp(c.Props, p) {
			return true
		}
	}
	return false
}

func standingAssumptions() []string {
	return []string{
		"T6: machine integers are mathematical integers (no overflow/wrap) except where a contract says otherwise",
		"T6: float64(int) / int(float) / math.Mod / math.Pow / bit operations are uninterpreted functions",
		"panics-not-checked: functions without `nopanic` are not checked for index/nil/type-assertion panics",
		"T7: data-race freedom is argued from lock discipline only; the Go memory model is not formalised",
		"goroutines spawned with `go` are not executed (no interleavings); channels are ghost histories",
		"T9: object invariants of values arriving from outside the verified functions are stated as `requires`",
	}
}

func funcHash(p *Program, name string) string {
	fn := p.Funcs[name]
	if fn == nil || fn.Syntax() == nil {
		return ""
	}
	s, e := p.Fset.Position(fn.Syntax().Pos()), p.Fset.Position(fn.Syntax().End())
	data, err := os.ReadFile(s.Filename)
	if err != nil || e.Offset > len(data) {
		return ""
	}
	return fmt.Sprintf("%x", sha256.Sum256(data[s.Offset:e.Offset]))[:16]
}

func pinLock(prop string, obls []*Obligation) {
	lock := loadLock()
	if lock == nil {
		lock = map[string][]string{}
	}
	var ns []string
	for _, o := range obls {
		if !o.MustFail && !incidentalObligation(o.Name) {
			ns = append(ns, o.Name)
		}
	}
	sort.Strings(ns)
	lock[prop] = ns
	var ps []string
	for p := range lock {
		ps = append(ps, p)
	}
	sort.Strings(ps)
	var b strings.Builder
	for _, p := range ps {
		for _, n := range lock[p] {
			fmt.Fprintf(&b, "%s %s\n", p, n)
		}
	}
	os.WriteFile(filepath.Join(verifDir, "obligations.lock"), []byte(b.String()), 0o644)
}

// scratchDir is where per-run material (SMT files, replay directories) goes: /verif, unless VERIF_SCRATCH names
// another directory (used to check scratch worktrees in parallel; such runs never write evidence).
func scratchDir() string {
	if d := os.Getenv("VERIF_SCRATCH"); d != "" {
		return d
	}
	return verifDir
}

// writeReplay stores everything needed to look at a failed obligation.
func writeReplay(prop, name, why string, o *Obligation, opts solveOpts) string {
	dir := filepath.Join(scratchDir(), "replay", prop, fileSafe(name))
	os.RemoveAll(dir)
	os.MkdirAll(dir, 0o755)
	var b strings.Builder
	fmt.Fprintf(&b, "property: %s\nfailed obligation: %s\nreason: %s\n", prop, name, why)
	if o != nil {
		fmt.Fprintf(&b, "kind: %s\nfunction: %s\nsource: %s\nwhat: %s\n\nsolver transcript:\n%s\n", o.Kind, o.Func, o.Pos, o.Desc, o.Output)
		os.WriteFile(filepath.Join(dir, "obligation.smt2"), []byte(o.query()), 0o644)
		if o.Status == "failed" {
			m := getModel(o, opts, nil)
			if m != "" {
				os.WriteFile(filepath.Join(dir, "model.txt"), []byte(m), 0o644)
				fmt.Fprintf(&b, "\nsolver model: see model.txt\n")
			}
		} else {
			fmt.Fprintf(&b, "\nno solver produced a model (answers: unknown/timeout)\n")
		}
	}
	os.WriteFile(filepath.Join(dir, "REPORT.txt"), []byte(b.String()), 0o644)
	return dir
}
