package main

import (
	"context"
	"encoding/json"
	"fmt"
	"go/types"
	"math"
	"os"
	"os/exec"
	"path/filepath"
	"sort"
	"strconv"
	"strings"
	"time"

	"golang.org/x/tools/go/ssa"
)

// Counterexample replay (DESIGN §6, §13.2).
//
// For every function under contract the encoder records a description of its INPUTS in the entry state: for each
// parameter (and receiver) a list of (path, SMT term, kind) - scalars, the first few elements of slices, the fields
// of pointed-to structs, two levels deep.  When an obligation fails with a model, the solver is asked for the values
// of exactly those terms (get-value), the values are written as inputs.json, and - if /verif/replay_templates has a
// template for the function - an in-package Go test is instantiated with them and run against the REAL code through
// `go test -overlay`.  The template rebuilds the inputs, calls the real function and checks the property's statement
// with ordinary Go code; it prints REPRODUCED when the real code misbehaves.  Only then does the VIOLATION line lose
// its `no-failing-input-found` suffix.

type inputTerm struct {
	Path string `json:"path"`
	Term string `json:"-"`
	Kind string `json:"kind"` // int bool str f64
}

const replayElems = 6

// describeInputs is called at function entry (parameters are bound, st is the entry state).
func (f *Frame) describeInputs(st *State) {
	e := f.e
	defer func() {
		if r := recover(); r != nil {
			if _, ok := r.(encErr); ok {
				return // something outside the subset: inputs stay partial
			}
			panic(r)
		}
	}()
	for _, p := range f.fn.Params {
		if v := f.vals[p]; v != nil {
			e.describe(st, p.Name(), v.T, p.Type(), 0)
		}
	}
	for _, fv := range f.fn.FreeVars {
		if v := f.vals[fv]; v != nil {
			if pt, ok := fv.Type().Underlying().(*types.Pointer); ok {
				cell := e.load(st, e.ptrLoc(v))
				e.describe(st, fv.Name(), cell.T, pt.Elem(), 0)
			}
		}
	}
}

func (e *Encoder) addInput(path, term, kind string) {
	if len(e.inputs) < 400 {
		e.inputs = append(e.inputs, inputTerm{path, term, kind})
	}
}

func (e *Encoder) describe(st *State, path, t string, ty types.Type, depth int) {
	switch u := ty.Underlying().(type) {
	case *types.Basic:
		switch {
		case u.Info()&types.IsBoolean != 0:
			e.addInput(path, t, "bool")
		case u.Info()&types.IsInteger != 0:
			e.addInput(path, t, "int")
		case u.Info()&types.IsFloat != 0:
			e.addInput(path, t, "f64")
		case u.Info()&types.IsString != 0:
			e.addInput(path, t, "str")
		}
	case *types.Pointer:
		e.addInput(path+".isnil", eq(t, "0"), "bool")
		if depth >= 2 {
			return
		}
		sT, s := derefStruct(ty)
		if s == nil || isOpaqueStruct(u.Elem()) || isTimeTime(u.Elem()) {
			return
		}
		l := &Loc{Comp: "", Idx: []string{t}, Type: sT, Root: sT}
		for i := 0; i < s.NumFields(); i++ {
			fl := s.Field(i)
			if _, isStruct := fl.Type().Underlying().(*types.Struct); isStruct && (isOpaqueStruct(fl.Type()) || strings.Contains(fl.Type().String(), "sync.")) {
				continue
			}
			v := e.load(st, e.fieldLoc(l, fl))
			e.describe(st, path+"."+fl.Name(), v.T, fl.Type(), depth+1)
		}
	case *types.Struct:
		if isOpaqueStruct(ty) || isTimeTime(ty) {
			return
		}
		ss := e.sorts.structSortOf(ty, u)
		for i := 0; i < u.NumFields(); i++ {
			fl := u.Field(i)
			if _, isStruct := fl.Type().Underlying().(*types.Struct); isStruct && (isOpaqueStruct(fl.Type()) || strings.Contains(fl.Type().String(), "sync.")) {
				continue
			}
			e.describe(st, path+"."+fl.Name(), e.fieldOf(ss, i, t), fl.Type(), depth)
		}
	case *types.Slice:
		e.addInput(path+".len", app("slen", t), "int")
		if depth >= 3 {
			return
		}
		es := e.sorts.sortOf(u.Elem())
		E := e.comp(st, e.elemComp(u.Elem()), arr2Sort(es))
		for k := 0; k < replayElems; k++ {
			el := sel(sel(E, app("sarr", t)), app("idx", t, fmt.Sprint(k)))
			e.describe(st, fmt.Sprintf("%s[%d]", path, k), el, u.Elem(), depth+1)
		}
	case *types.Interface:
		// dynamic type tag and payload by kind
		e.addInput(path+".isnil", eq(t, "ANil"), "bool")
		e.addInput(path+".tag", app("tagof", t), "int")
		e.addInput(path+".isInt", app("(_ is AInt)", t), "bool")
		e.addInput(path+".isF64", app("(_ is AF64)", t), "bool")
		e.addInput(path+".isStr", app("(_ is AStr)", t), "bool")
		e.addInput(path+".isBool", app("(_ is ABool)", t), "bool")
		e.addInput(path+".int", ite(app("(_ is AInt)", t), app("aint", t), "0"), "int")
		e.addInput(path+".f64", ite(app("(_ is AF64)", t), app("af64", t), "(_ +zero 11 53)"), "f64")
		e.addInput(path+".str", ite(app("(_ is AStr)", t), app("astr", t), "snil"), "str")
		e.addInput(path+".bool", ite(app("(_ is ABool)", t), app("abool", t), "false"), "bool")
	}
}

// ---- model values -> JSON ----

func strValue(n *tsx) (string, bool) {
	var bs []byte
	for {
		if !n.list {
			if n.atom == "snil" {
				return string(bs), true
			}
			return "", false
		}
		if len(n.kids) != 3 || n.kids[0].atom != "scons" {
			return "", false
		}
		c, ok := intValue(n.kids[1])
		if !ok {
			return "", false
		}
		bs = append(bs, byte(c))
		if len(bs) > 4096 {
			return string(bs), true
		}
		n = n.kids[2]
	}
}

func intValue(n *tsx) (int64, bool) {
	if !n.list {
		v, err := strconv.ParseInt(n.atom, 10, 64)
		return v, err == nil
	}
	if len(n.kids) == 2 && n.kids[0].atom == "-" {
		v, ok := intValue(n.kids[1])
		return -v, ok
	}
	return 0, false
}

func f64Value(n *tsx) (uint64, bool) {
	s := n.String()
	switch s {
	case "(_ +zero 11 53)":
		return 0, true
	case "(_ -zero 11 53)":
		return 1 << 63, true
	case "(_ +oo 11 53)":
		return math.Float64bits(math.Inf(1)), true
	case "(_ -oo 11 53)":
		return math.Float64bits(math.Inf(-1)), true
	case "(_ NaN 11 53)":
		return math.Float64bits(math.NaN()), true
	}
	if n.list && len(n.kids) == 4 && n.kids[0].atom == "fp" {
		bits := func(a string) (uint64, int, bool) {
			switch {
			case strings.HasPrefix(a, "#b"):
				v, err := strconv.ParseUint(a[2:], 2, 64)
				return v, len(a) - 2, err == nil
			case strings.HasPrefix(a, "#x"):
				v, err := strconv.ParseUint(a[2:], 16, 64)
				return v, 4 * (len(a) - 2), err == nil
			}
			return 0, 0, false
		}
		sg, _, ok1 := bits(n.kids[1].atom)
		ex, _, ok2 := bits(n.kids[2].atom)
		mt, _, ok3 := bits(n.kids[3].atom)
		if ok1 && ok2 && ok3 {
			return sg<<63 | ex<<52 | mt, true
		}
	}
	return 0, false
}

// modelInputs asks z3 for the values of the recorded input terms in a model of the failed obligation.
func modelInputs(o *Obligation, opts solveOpts) (map[string]interface{}, string) {
	e := o.enc
	if e == nil || len(e.inputs) == 0 {
		return nil, ""
	}
	var terms []string
	for _, in := range e.inputs {
		terms = append(terms, in.Term)
	}
	q := o.query()
	q = strings.Replace(q, "(check-sat)\n", "(check-sat)\n(get-value ("+strings.Join(terms, "\n ")+"))\n", 1)
	file := filepath.Join(opts.outDir, fileSafe(o.Name)+".inputs.smt2")
	os.WriteFile(file, []byte(q), 0o644)
	var out string
	for _, sp := range []solverSpec{solvers[0], solvers[2]} {
		a := runSolver(context.Background(), sp, file, maxInt(opts.timeoutS, 10), opts.seed)
		if a.answer == "sat" {
			out = a.output
			break
		}
	}
	if out == "" {
		return nil, ""
	}
	i := strings.Index(out, "\n")
	forms := parseTsx(out[i+1:])
	if len(forms) == 0 || !forms[0].list {
		return nil, out
	}
	vals := map[string]interface{}{}
	pairs := forms[0].kids
	for k, in := range e.inputs {
		if k >= len(pairs) || !pairs[k].list || len(pairs[k].kids) != 2 {
			break
		}
		v := pairs[k].kids[1]
		switch in.Kind {
		case "int":
			if x, ok := intValue(v); ok {
				vals[in.Path] = x
			}
		case "bool":
			vals[in.Path] = v.String() == "true"
		case "str":
			if s, ok := strValue(v); ok {
				vals[in.Path] = []byte(s) // JSON: base64, exact bytes
			}
		case "f64":
			if b, ok := f64Value(v); ok {
				vals[in.Path] = fmt.Sprintf("0x%016x", b)
			}
		}
	}
	return vals, out
}

func templateFor(fn string) string {
	base := fn
	if i := strings.Index(base, "@"); i >= 0 {
		base = base[:i] // opcode / node cases share their function's template
	}
	p := filepath.Join(verifDir, "replay_templates", fileSafe(base)+".go.tmpl")
	if _, err := os.Stat(p); err == nil {
		return p
	}
	return ""
}

// tryReplay instantiates the replay template of the failed obligation's function with the model's input values and
// runs it against the real code. Returns true iff the real code reproduces a violation of the property's statement.
func tryReplay(prop, dir string, o *Obligation, opts solveOpts) bool {
	if o == nil {
		return false
	}
	var vals map[string]interface{}
	var raw string
	if o.Status == "failed" && o.enc != nil {
		vals, raw = modelInputs(o, opts)
	}
	hasModel := vals != nil
	if !hasModel {
		if templateFor(o.Func) == "" {
			return false
		}
		// no model (unknown / timeout): the template can still run its bounded search of the real function
		vals = map[string]interface{}{}
	}
	data, _ := json.MarshalIndent(map[string]interface{}{"function": o.Func, "obligation": o.Name, "has_model": hasModel, "inputs": vals}, "", " ")
	os.WriteFile(filepath.Join(dir, "inputs.json"), data, 0o644)
	_ = raw
	tp := templateFor(o.Func)
	appendReport := func(s string) {
		f, err := os.OpenFile(filepath.Join(dir, "REPORT.txt"), os.O_APPEND|os.O_WRONLY, 0o644)
		if err == nil {
			f.WriteString(s)
			f.Close()
		}
	}
	if tp == "" {
		appendReport("\nmodel values of the function's inputs: inputs.json; no replay template for " + o.Func + " (the model was not run against the real code)\n")
		return false
	}
	tmpl, err := os.ReadFile(tp)
	if err != nil {
		return false
	}
	pkgDir := ""
	for _, l := range strings.Split(string(tmpl), "\n") {
		if strings.HasPrefix(l, "// pkg: ") {
			pkgDir = strings.TrimSpace(strings.TrimPrefix(l, "// pkg: "))
			break
		}
	}
	if pkgDir == "" {
		return false
	}
	src := strings.Replace(string(tmpl), "/*INPUTS*/", "`"+strings.ReplaceAll(string(data), "`", "'")+"`", 1)
	testFile := filepath.Join(dir, "replay_test.go")
	os.WriteFile(testFile, []byte(src), 0o644)
	ok, out := runReplay(dir, pkgDir, 60)
	appendReport("\nreplay against the real code (replay_test.go, go test -overlay):\n" + out + "\n")
	return ok
}

func runReplay(dir, pkgDir string, limitS int) (bool, string) {
	root := repoRoot()
	ov := map[string]map[string]string{"Replace": {filepath.Join(root, pkgDir, "zz_govc_replay_test.go"): filepath.Join(dir, "replay_test.go")}}
	ovData, _ := json.Marshal(ov)
	ovFile := filepath.Join(dir, "overlay.json")
	os.WriteFile(ovFile, ovData, 0o644)
	os.WriteFile(filepath.Join(dir, "replay_pkg.txt"), []byte(pkgDir), 0o644)
	ctx, cancel := context.WithTimeout(context.Background(), time.Duration(limitS+120)*time.Second)
	defer cancel()
	cmd := exec.CommandContext(ctx, "go", "test", "-overlay", ovFile, "-vet=off", "-count=1", "-timeout", fmt.Sprintf("%ds", limitS), "-run", "^TestGovcReplay$", "./"+pkgDir+"/")
	cmd.Dir = root
	tmp := filepath.Join(dir, "tmp")
	os.MkdirAll(tmp, 0o755)
	defer os.RemoveAll(tmp)
	cmd.Env = append(os.Environ(), "GOFLAGS=-mod=mod", "GOPROXY=off", "GOSUMDB=off", "GOTOOLCHAIN=local", "TMPDIR="+tmp)
	b, _ := cmd.CombinedOutput()
	out := string(b)
	if len(out) > 4000 {
		out = out[:4000]
	}
	os.WriteFile(filepath.Join(dir, "replay_output.txt"), b, 0o644)
	return strings.Contains(out, "REPRODUCED") || strings.Contains(string(b), "BOUNDED-VIOLATION") || realCodePanicked(string(b), root), out
}

// realCodePanicked: the replay test died with a Go panic raised in the real code (the innermost frame inside the tree
// under test is not a _test.go file), e.g. in a goroutine the code under test started, where the template cannot
// recover it.
func realCodePanicked(out, root string) bool {
	i := strings.Index(out, "panic: ")
	if i < 0 {
		return false
	}
	for _, l := range strings.Split(out[i:], "\n") {
		l = strings.TrimSpace(l)
		if !strings.HasPrefix(l, "/") || !strings.Contains(l, ".go:") {
			continue
		}
		if strings.Contains(l, "/src/runtime/") || strings.Contains(l, "/src/testing/") {
			continue
		}
		file := l[:strings.Index(l, ".go:")+3]
		return !strings.HasSuffix(file, "_test.go")
	}
	return false
}

// cmdReplay: `govc replay <dir>` shows what a check wrote for a failed obligation and, when a replay test was
// generated, runs it again against the current tree.
func cmdReplay(args []string) int {
	if len(args) != 1 {
		fmt.Fprintln(os.Stderr, "usage: check --replay <replay directory>")
		return 2
	}
	dir := args[0]
	rep, err := os.ReadFile(filepath.Join(dir, "REPORT.txt"))
	if err != nil {
		fmt.Fprintln(os.Stderr, "no REPORT.txt in", dir)
		return 2
	}
	fmt.Print(string(rep))
	var names []string
	if ents, err := os.ReadDir(dir); err == nil {
		for _, en := range ents {
			names = append(names, en.Name())
		}
	}
	sort.Strings(names)
	fmt.Println("\nfiles:", strings.Join(names, " "))
	pk, err := os.ReadFile(filepath.Join(dir, "replay_pkg.txt"))
	if err != nil {
		fmt.Println("no replay test was generated for this obligation (no model, or no template for the function): no-failing-input-found")
		return 1
	}
	ok, out := runReplay(dir, strings.TrimSpace(string(pk)), 900) // by hand: a bounded stand-in may take minutes
	fmt.Println("re-running replay_test.go against the current tree:")
	fmt.Println(out)
	if ok {
		fmt.Println("REPRODUCED on the real code")
	} else {
		fmt.Println("not reproduced on the current tree")
	}
	return 1
}

var _ = ssa.Value(nil)
