package main

// tryReplay instantiates the replay template of the failed obligation (if any) with model values and runs it
// against the real code. Returns true iff the real code reproduces the violation.
func tryReplay(prop, dir string, o *Obligation) bool { return false }
