package main

import "runtime"

// procSem caps the number of solver processes alive at once.
var procSem = make(chan struct{}, maxInt(4, runtime.NumCPU()-2))

func minInt(a, b int) int {
	if a < b {
		return a
	}
	return b
}
