package main

import "runtime"

// procSem caps the number of solver processes alive at once.
var procSem = make(chan struct{}, maxInt(4, runtime.NumCPU()-2))

func minInt(a, b int) int {
	if a < b {
		return a
	}
	return b
}

// shortName strips a package qualifier: "metrics.wf" -> "wf".
func shortName(n string) string {
	for i := len(n) - 1; i >= 0; i-- {
		if n[i] == '.' {
			return n[i+1:]
		}
	}
	return n
}
