package main

import (
	"fmt"
	"regexp"
	"strings"
)

// ---- tiny s-expression reader (for lemma formulas) ----

type sx struct {
	atom string
	list []*sx
	isL  bool
}

func parseSx(s string) (*sx, error) {
	pos := 0
	var rd func() (*sx, error)
	skip := func() {
		for pos < len(s) && (s[pos] == ' ' || s[pos] == '\n' || s[pos] == '\t') {
			pos++
		}
	}
	rd = func() (*sx, error) {
		skip()
		if pos >= len(s) {
			return nil, fmt.Errorf("unexpected end of formula")
		}
		if s[pos] == '(' {
			pos++
			n := &sx{isL: true}
			for {
				skip()
				if pos >= len(s) {
					return nil, fmt.Errorf("missing ')'")
				}
				if s[pos] == ')' {
					pos++
					return n, nil
				}
				k, err := rd()
				if err != nil {
					return nil, err
				}
				n.list = append(n.list, k)
			}
		}
		if s[pos] == '|' {
			j := strings.IndexByte(s[pos+1:], '|')
			a := s[pos : pos+j+2]
			pos += j + 2
			return &sx{atom: a}, nil
		}
		j := pos
		for j < len(s) && !strings.ContainsRune(" \n\t()", rune(s[j])) {
			j++
		}
		a := s[pos:j]
		pos = j
		return &sx{atom: a}, nil
	}
	n, err := rd()
	if err != nil {
		return nil, err
	}
	skip()
	if pos != len(s) {
		return nil, fmt.Errorf("trailing text after formula: %q", s[pos:])
	}
	return n, nil
}

func (n *sx) String() string {
	if !n.isL {
		return n.atom
	}
	var ps []string
	for _, k := range n.list {
		ps = append(ps, k.String())
	}
	return "(" + strings.Join(ps, " ") + ")"
}

func (n *sx) subst(name string, by *sx) *sx {
	if !n.isL {
		if n.atom == name {
			return by
		}
		return n
	}
	// respect shadowing by inner binders
	if len(n.list) == 3 && !n.list[0].isL && (n.list[0].atom == "forall" || n.list[0].atom == "exists") {
		for _, b := range n.list[1].list {
			if b.isL && len(b.list) == 2 && b.list[0].atom == name {
				return n
			}
		}
	}
	out := &sx{isL: true}
	for _, k := range n.list {
		out.list = append(out.list, k.subst(name, by))
	}
	return out
}

// lemmaObligations builds the standalone queries proving a lemma.
func lemmaObligations(ct *Contracts, lm *Lemma) ([]*Obligation, error) {
	f, err := parseSx(lm.Formula)
	if err != nil {
		return nil, fmt.Errorf("%s: lemma %s: %v", lm.Pos, lm.Name, err)
	}
	mk := func(kind, goal string) *Obligation {
		var body strings.Builder
		for _, u := range lm.Using {
			ul := ct.Lemmas[u]
			if ul == nil {
				continue
			}
			fmt.Fprintf(&body, "; using %s\n(assert %s)\n", u, ul.axiomForm())
		}
		for _, h := range lm.Hints {
			fmt.Fprintf(&body, "(assert %s)\n", h)
		}
		fmt.Fprintf(&body, "(assert (not %s))\n", goal)
		text := body.String()
		specs := ct.specDecls(func(n string) bool { return containsSymbol(text, n) })
		q := "; lemma " + lm.Name + " " + kind + "\n" + prelude + structDeclsFor(specs+text) + specs + text + "(check-sat)\n"
		return &Obligation{Name: "lemma." + lm.Name + "#" + kind, Func: "lemma." + lm.Name, Kind: "lemma", Props: lm.Props, Goal: goal,
			Desc: "lemma " + lm.Name + " (" + kind + ")", Pos: lm.Pos, Standalone: q}
	}
	for _, u := range lm.Using {
		if ct.Lemmas[u] == nil {
			return nil, fmt.Errorf("%s: lemma %s uses unknown lemma %s", lm.Pos, lm.Name, u)
		}
	}
	if lm.Induct == "" {
		return []*Obligation{mk("direct", f.String())}, nil
	}
	if !f.isL || len(f.list) != 3 || f.list[0].atom != "forall" {
		return nil, fmt.Errorf("%s: lemma %s: induction needs an outermost forall", lm.Pos, lm.Name)
	}
	var others []*sx
	var vsort string
	for _, b := range f.list[1].list {
		if b.list[0].atom == lm.Induct {
			vsort = b.list[1].String()
		} else {
			others = append(others, b)
		}
	}
	if vsort == "" {
		return nil, fmt.Errorf("%s: lemma %s: induction variable %s not bound by the outermost forall", lm.Pos, lm.Name, lm.Induct)
	}
	body := f.list[2]
	quant := func(b *sx) string {
		if len(others) == 0 {
			return b.String()
		}
		return (&sx{isL: true, list: []*sx{{atom: "forall"}, {isL: true, list: others}, b}}).String()
	}
	switch vsort {
	case "Str":
		base := quant(body.subst(lm.Induct, &sx{atom: "snil"}))
		hyp := quant(body.subst(lm.Induct, &sx{atom: "t!ind"}))
		concl := quant(body.subst(lm.Induct, &sx{isL: true, list: []*sx{{atom: "scons"}, {atom: "h!ind"}, {atom: "t!ind"}}}))
		step := fmt.Sprintf("(forall ((h!ind Int) (t!ind Str)) (=> %s %s))", hyp, concl)
		return []*Obligation{mk("base", base), mk("step", step)}, nil
	case "Int":
		base := quant(body.subst(lm.Induct, &sx{atom: "0"}))
		hyp := quant(body.subst(lm.Induct, &sx{atom: "n!ind"}))
		concl := quant(body.subst(lm.Induct, &sx{isL: true, list: []*sx{{atom: "+"}, {atom: "n!ind"}, {atom: "1"}}}))
		step := fmt.Sprintf("(forall ((n!ind Int)) (=> (and (>= n!ind 0) %s) %s))", hyp, concl)
		return []*Obligation{mk("base", base), mk("step", step)}, nil
	}
	return nil, fmt.Errorf("%s: lemma %s: induction over sort %s not supported", lm.Pos, lm.Name, vsort)
}

// lemmaProg is the loaded program, used to declare the struct datatypes a lemma mentions (|S.pkg.Type|).
var lemmaProg *Program

var structSortRe = regexp.MustCompile(`\|S\.([A-Za-z0-9_]+)\.([A-Za-z0-9_]+)\|`)

func structDeclsFor(text string) string {
	if lemmaProg == nil {
		return ""
	}
	st := newSortTable()
	e := &Encoder{prog: lemmaProg, sorts: st}
	seen := map[string]bool{}
	for _, m := range structSortRe.FindAllStringSubmatch(text, -1) {
		name := m[1] + "." + m[2]
		if seen[name] {
			continue
		}
		seen[name] = true
		if t := e.lookupType(name, nil); t != nil {
			st.sortOf(t)
		}
	}
	return st.decls()
}
