package main

import (
	"fmt"
	"go/constant"
	"go/types"
	"strconv"
	"strings"

	"golang.org/x/tools/go/ssa"
)

// Env evaluates contract expressions.
type Env struct {
	f     *Frame
	names map[string]*Value
	bound map[string]*Value
	st    *State
	old   *State
	fnPkg *types.Package
	// resolver for source-level locals (loop invariants)
	local func(name string) *Value
	// seen: the "already visited" ghost set of the map-range loop an invariant is attached to (component name, key sort)
	seenComp, seenSort string
	// defined(x): the definition of loop-body local x was executed in this iteration (back-edge assertions only)
	defined func(name string) string
}

func (env *Env) e() *Encoder { return env.f.e }

func (env *Env) fail(format string, args ...interface{}) {
	env.e().fail("contract: "+format, args...)
}

func (env *Env) evalBool(n *Node) string {
	v := env.eval(n)
	if v.Sort != sBool {
		env.fail("expected boolean expression, got sort %s in %s", v.Sort, n)
	}
	return v.T
}

func (env *Env) withState(st *State) *Env {
	c := *env
	c.st = st
	return &c
}

func (env *Env) lookupName(name string) *Value {
	if v, ok := env.bound[name]; ok {
		return v
	}
	if v, ok := env.names[name]; ok {
		return v
	}
	if env.local != nil {
		if v := env.local(name); v != nil {
			return v
		}
	}
	// package-level constants and variables of the function's package
	if env.fnPkg != nil {
		if o := env.fnPkg.Scope().Lookup(name); o != nil {
			return env.objValue(o)
		}
	}
	return nil
}

func (env *Env) objValue(o types.Object) *Value {
	e := env.e()
	switch x := o.(type) {
	case *types.Const:
		return e.constToValue(x.Val(), x.Type())
	case *types.Var:
		t := x.Type()
		name := "G." + shortPkg(x.Pkg().Path()) + "." + x.Name()
		return e.load(env.st, &Loc{Comp: name, Idx: []string{"0"}, Type: t, Root: t})
	}
	env.fail("cannot use %v in a contract", o)
	return nil
}

func (e *Encoder) constToValue(v constant.Value, t types.Type) *Value {
	switch u := t.Underlying().(type) {
	case *types.Basic:
		switch {
		case u.Info()&types.IsBoolean != 0:
			return term(fmt.Sprint(constant.BoolVal(v)), sBool, t)
		case u.Info()&types.IsInteger != 0:
			if i, ok := constant.Int64Val(constant.ToInt(v)); ok {
				return term(intLit(i), sInt, t)
			}
			return term(bigLit(constant.ToInt(v).ExactString()), sInt, t)
		case u.Info()&types.IsFloat != 0:
			fl, _ := constant.Float64Val(v)
			return term(f64Lit(fl), sF64, t)
		case u.Info()&types.IsString != 0:
			return term(strLit(constant.StringVal(v)), sStr, t)
		}
	}
	e.fail("unsupported constant type %v", t)
	return nil
}

func (env *Env) eval(n *Node) *Value {
	e := env.e()
	switch n.Op {
	case "int":
		i, err := strconv.ParseInt(n.Lit, 0, 64)
		if err != nil {
			env.fail("bad integer %s", n.Lit)
		}
		return term(intLit(i), sInt, types.Typ[types.Int])
	case "float":
		fl, _ := strconv.ParseFloat(n.Lit, 64)
		return term(f64Lit(fl), sF64, types.Typ[types.Float64])
	case "str":
		return term(strLit(n.Lit), sStr, types.Typ[types.String])
	case "bool":
		return term(n.Lit, sBool, types.Typ[types.Bool])
	case "nil":
		return &Value{T: "NIL", Sort: "NIL"}
	case "smt":
		// raw SMT term: `sort:term` with $name substitutions
		i := strings.Index(n.Lit, ":")
		if i < 0 {
			env.fail("raw smt needs `Sort:term`")
		}
		return term(env.substRaw(n.Lit[i+1:]), strings.TrimSpace(n.Lit[:i]), nil)
	case "name":
		if v := env.lookupName(n.Name); v != nil {
			if v.Loc != nil && env.isVarCell(v) {
				return e.load(env.st, v.Loc)
			}
			return v
		}
		env.fail("unknown name %q", n.Name)
	case "old":
		if env.old == nil {
			env.fail("old() used where there is no pre-state")
		}
		return env.withState(env.old).eval(n.Kids[0])
	case "field":
		// package-qualified name?
		if n.Kids[0].Op == "name" && env.lookupName(n.Kids[0].Name) == nil {
			if v := env.qualified(n.Kids[0].Name, n.Name); v != nil {
				return v
			}
		}
		x := env.eval(n.Kids[0])
		return env.field(x, n.Name, n)
	case "index":
		x := env.eval(n.Kids[0])
		i := env.eval(n.Kids[1])
		return env.index(x, i, n)
	case "unop":
		x := env.eval(n.Kids[0])
		switch n.Name {
		case "!":
			return term(not(x.T), sBool, types.Typ[types.Bool])
		case "-":
			if x.Sort == sF64 {
				return term(app("fp.neg", x.T), sF64, x.Type)
			}
			return term(app("-", x.T), sInt, x.Type)
		}
	case "binop":
		return env.binop(n)
	case "forall", "exists":
		saved := env.bound
		nb := map[string]*Value{}
		for k, v := range saved {
			nb[k] = v
		}
		var decl []string
		var guards []string
		for _, b := range n.Binders {
			sortS, ty := env.binderSort(b.Type)
			nb[b.Name] = term(b.Name+"!q", sortS, ty)
			decl = append(decl, fmt.Sprintf("(%s %s)", b.Name+"!q", sortS))
			_ = guards
		}
		env.bound = nb
		body := env.evalBool(n.Kids[0])
		env.bound = saved
		return term(fmt.Sprintf("(%s (%s) %s)", n.Op, strings.Join(decl, " "), body), sBool, types.Typ[types.Bool])
	case "is":
		x := env.eval(n.Kids[0])
		t := e.lookupType(n.Name, env.fnPkg)
		if t == nil {
			env.fail("unknown type %s", n.Name)
		}
		if x.Sort != sAny {
			env.fail("'is' needs an interface value")
		}
		return term(e.anyIs(x.T, t), sBool, types.Typ[types.Bool])
	case "call":
		return env.call(n)
	}
	env.fail("cannot evaluate %s", n)
	return nil
}

// isVarCell: a Loc bound to a name that denotes a variable (captured variable / named result), to be read on use.
func (env *Env) isVarCell(v *Value) bool { return v.Type != nil && v.Loc != nil && v.T == "VAR" }

func (env *Env) substRaw(s string) string {
	// replace $name by the term of name
	var b strings.Builder
	for i := 0; i < len(s); i++ {
		if s[i] == '$' {
			j := i + 1
			for j < len(s) && (s[j] == '_' || s[j] >= 'a' && s[j] <= 'z' || s[j] >= 'A' && s[j] <= 'Z' || s[j] >= '0' && s[j] <= '9') {
				j++
			}
			v := env.lookupName(s[i+1 : j])
			if v == nil {
				env.fail("unknown name $%s in raw smt", s[i+1:j])
			}
			if v.Loc != nil {
				v = env.e().load(env.st, v.Loc)
			}
			b.WriteString(v.T)
			i = j - 1
			continue
		}
		b.WriteByte(s[i])
	}
	return b.String()
}

func (env *Env) binderSort(t string) (string, types.Type) {
	switch t {
	case "int", "Int":
		return sInt, types.Typ[types.Int]
	case "string", "Str":
		return sStr, types.Typ[types.String]
	case "bool":
		return sBool, types.Typ[types.Bool]
	case "float64":
		return sF64, types.Typ[types.Float64]
	case "ref":
		return sInt, nil
	case "any":
		return sAny, types.NewInterfaceType(nil, nil)
	}
	if gt := env.e().lookupType(t, env.fnPkg); gt != nil {
		return env.e().sorts.sortOf(gt), gt
	}
	if strings.HasPrefix(t, "(") {
		return t, nil
	}
	env.fail("unknown binder type %s", t)
	return "", nil
}

func (env *Env) qualified(pkg, name string) *Value {
	for _, p := range env.e().prog.SSA.AllPackages() {
		if shortPkg(p.Pkg.Path()) == pkg {
			if o := p.Pkg.Scope().Lookup(name); o != nil {
				return env.objValue(o)
			}
		}
	}
	return nil
}

// field evaluates x.name (real, promoted or ghost field).
func (env *Env) field(x *Value, name string, n *Node) *Value {
	e := env.e()
	if x.Type == nil {
		env.fail("field %s of untyped value in %s", name, n)
	}
	// ghost field?
	if g := e.ct.Ghost[namedPathShort(x.Type)+"."+name]; g != nil {
		idx := x.T
		if x.Loc != nil {
			idx = lockIdxOfLoc(x.Loc)
		}
		cn := "H." + g.Struct + "." + g.Name
		return term(sel(e.comp(env.st, cn, arrSort(g.Sort)), idx), g.Sort, nil)
	}
	obj, path, _ := types.LookupFieldOrMethod(x.Type, true, env.fnPkg, name)
	if obj == nil {
		// contracts may name unexported fields of types from other packages
		if tp := typePkg(x.Type); tp != nil {
			obj, path, _ = types.LookupFieldOrMethod(x.Type, true, tp, name)
		}
	}
	fv, ok := obj.(*types.Var)
	if !ok || !fv.IsField() {
		env.fail("type %v has no field %s (in %s)", x.Type, name, n)
	}
	cur := x
	for _, idx := range path {
		sT, s := derefStruct(cur.Type)
		if s == nil {
			env.fail("field access on non-struct %v", cur.Type)
		}
		fld := s.Field(idx)
		if cur.Loc != nil {
			cur = &Value{Loc: e.fieldLoc(cur.Loc, fld), Type: types.NewPointer(fld.Type())}
			cur = env.maybeLoad(cur, fld.Type())
			continue
		}
		if _, isPtr := cur.Type.Underlying().(*types.Pointer); isPtr {
			l := e.fieldLoc(e.ptrLoc(cur), fld)
			cur = env.maybeLoad(&Value{Loc: l, Type: types.NewPointer(fld.Type())}, fld.Type())
			continue
		}
		// struct value
		ss := e.sorts.structSortOf(sT, s)
		cur = term(app(ss.Fields[idx].Acc, cur.T), ss.Fields[idx].Sort, fld.Type())
	}
	return cur
}

func lockIdxOfLoc(l *Loc) string { return l.Idx[0] }

// maybeLoad: struct-typed intermediate fields stay as locations (so that further field selection or lock
// predicates can address them); everything else is read from the current state.
func (env *Env) maybeLoad(v *Value, t types.Type) *Value {
	if _, isStruct := t.Underlying().(*types.Struct); isStruct && !isTimeTime(t) {
		return &Value{Loc: v.Loc, Type: t, T: "STRUCTLOC"}
	}
	return env.e().load(env.st, v.Loc)
}

func (env *Env) index(x, i *Value, n *Node) *Value {
	e := env.e()
	if x.Type != nil {
		switch u := x.Type.Underlying().(type) {
		case *types.Slice:
			E := e.comp(env.st, e.elemComp(u.Elem()), arr2Sort(e.sorts.sortOf(u.Elem())))
			if _, isStruct := u.Elem().Underlying().(*types.Struct); isStruct && !isTimeTime(u.Elem()) && !isOpaqueStruct(u.Elem()) {
				// element struct value
				return term(sel(sel(E, app("sarr", x.T)), app("idx", x.T, i.T)), e.sorts.sortOf(u.Elem()), u.Elem())
			}
			return term(sel(sel(E, app("sarr", x.T)), app("idx", x.T, i.T)), e.sorts.sortOf(u.Elem()), u.Elem())
		case *types.Map:
			_, vn, _ := e.mapComps(u)
			ks, vs := e.sorts.sortOf(u.Key()), e.sorts.sortOf(u.Elem())
			vv := e.comp(env.st, vn, arrSort(arrSortK(ks, vs)))
			return term(sel(sel(vv, x.T), i.T), vs, u.Elem())
		case *types.Basic:
			return term(app("s.at", x.T, i.T), sInt, types.Typ[types.Byte])
		case *types.Array:
			return term(sel(x.T, i.T), e.sorts.sortOf(u.Elem()), u.Elem())
		}
	}
	if strings.HasPrefix(x.Sort, "(Array ") {
		return term(sel(x.T, i.T), arrayElemSort(x.Sort), nil)
	}
	if x.Sort == sStr {
		return term(app("s.at", x.T, i.T), sInt, nil)
	}
	env.fail("cannot index %s", n)
	return nil
}

// arrayElemSort("(Array Int X)") = "X"
func arrayElemSort(s string) string {
	inner := strings.TrimSuffix(strings.TrimPrefix(s, "(Array "), ")")
	// skip key sort
	depth := 0
	for i := 0; i < len(inner); i++ {
		switch inner[i] {
		case '(':
			depth++
		case ')':
			depth--
		case ' ':
			if depth == 0 {
				return inner[i+1:]
			}
		}
	}
	return inner
}

func (env *Env) coerceNil(a, b *Value) (*Value, *Value) {
	fix := func(x, other *Value) *Value {
		if x.Sort != "NIL" {
			return x
		}
		switch other.Sort {
		case sAny:
			return term("ANil", sAny, other.Type)
		case sSlice:
			return term("NILSLICE", sSlice, other.Type)
		default:
			return term("0", sInt, other.Type)
		}
	}
	return fix(a, b), fix(b, a)
}

func (env *Env) binop(n *Node) *Value {
	op := n.Name
	boolT := types.Typ[types.Bool]
	switch op {
	case "&&", "||", "==>", "<==>":
		a := env.evalBool(n.Kids[0])
		b := env.evalBool(n.Kids[1])
		switch op {
		case "&&":
			return term(and(a, b), sBool, boolT)
		case "||":
			return term(or(a, b), sBool, boolT)
		case "==>":
			return term(implies(a, b), sBool, boolT)
		default:
			return term(eq(a, b), sBool, boolT)
		}
	}
	a := env.eval(n.Kids[0])
	b := env.eval(n.Kids[1])
	a, b = env.coerceNil(a, b)
	if (op == "==" || op == "!=") && (n.Kids[0].Op == "nil" || n.Kids[1].Op == "nil") {
		// the address of a field or element compared with nil: it is nil only if... never; the base object exists
		l := a.Loc
		if l == nil {
			l = b.Loc
		}
		if l != nil && len(l.Idx) >= 1 && (a.Loc == nil || b.Loc == nil) {
			nonnil := not(eq(l.Idx[0], "0"))
			if op == "==" {
				return term(not(nonnil), sBool, boolT)
			}
			return term(nonnil, sBool, boolT)
		}
	}
	if a.Loc != nil || b.Loc != nil {
		env.fail("operands of %s must be values, not locations, in %s", op, n)
	}
	if a.Sort != b.Sort {
		env.fail("sort mismatch %s vs %s in %s", a.Sort, b.Sort, n)
	}
	switch op {
	case "==", "!=":
		var t string
		switch {
		// note: on floats, contract `==` is identity (NaN == NaN), not IEEE equality; use feq(a, b) for the latter
		case a.Sort == sSlice && (a.T == "NILSLICE" || b.T == "NILSLICE"):
			x := a
			if a.T == "NILSLICE" {
				x = b
			}
			t = eq(app("sarr", x.T), "0")
		default:
			t = eq(a.T, b.T)
		}
		if op == "!=" {
			t = not(t)
		}
		return term(t, sBool, boolT)
	case "<", "<=", ">", ">=":
		if a.Sort == sF64 {
			return term(app(map[string]string{"<": "fp.lt", "<=": "fp.leq", ">": "fp.gt", ">=": "fp.geq"}[op], a.T, b.T), sBool, boolT)
		}
		return term(app(op, a.T, b.T), sBool, boolT)
	case "+":
		if a.Sort == sStr {
			return term(app("s.app", a.T, b.T), sStr, a.Type)
		}
		if a.Sort == sF64 {
			return term(app("fadd", a.T, b.T), sF64, a.Type)
		}
		return term(app("+", a.T, b.T), sInt, a.Type)
	case "-":
		if a.Sort == sF64 {
			return term(app("fsub", a.T, b.T), sF64, a.Type)
		}
		return term(app("-", a.T, b.T), sInt, a.Type)
	case "*":
		if a.Sort == sF64 {
			return term(app("fmul", a.T, b.T), sF64, a.Type)
		}
		return term(app("*", a.T, b.T), sInt, a.Type)
	case "/":
		if a.Sort == sF64 {
			return term(app("fdiv", a.T, b.T), sF64, a.Type)
		}
		return term(app("gdiv", a.T, b.T), sInt, a.Type)
	case "%":
		return term(app("gmod", a.T, b.T), sInt, a.Type)
	}
	env.fail("unsupported operator %s", op)
	return nil
}

// lockLoc evaluates an expression denoting a mutex (a struct-typed field location or pointer).
func (env *Env) lockLoc(n *Node) *Loc {
	v := env.evalRaw(n)
	if v.Loc != nil {
		return v.Loc
	}
	return env.e().ptrLoc(v)
}

// evalRaw evaluates but keeps struct locations.
func (env *Env) evalRaw(n *Node) *Value {
	return env.eval(n)
}

func (env *Env) call(n *Node) *Value {
	e := env.e()
	boolT := types.Typ[types.Bool]
	intT := types.Typ[types.Int]
	arg := func(i int) *Value { return env.eval(n.Kids[i]) }
	if i := strings.LastIndex(n.Name, "."); i >= 0 {
		// package-qualified predicate / spec function: names are global
		if short := n.Name[i+1:]; e.ct.Preds[short] != nil || e.ct.Specs[short] != nil {
			n = &Node{Op: "call", Name: short, Kids: n.Kids, Src: n.Src}
		}
	}
	switch n.Name {
	case "len":
		x := arg(0)
		if x.Type != nil {
			switch u := x.Type.Underlying().(type) {
			case *types.Slice:
				return term(app("slen", x.T), sInt, intT)
			case *types.Map:
				_, _, ln := e.mapComps(u)
				return term(sel(e.comp(env.st, ln, arrSort(sInt)), x.T), sInt, intT)
			case *types.Basic:
				return term(app("s.len", x.T), sInt, intT)
			}
		}
		if x.Sort == sStr {
			return term(app("s.len", x.T), sInt, intT)
		}
		if x.Sort == sSlice {
			return term(app("slen", x.T), sInt, intT)
		}
		env.fail("len of %s", n.Kids[0])
	case "cap":
		return term(app("scap", arg(0).T), sInt, intT)
	case "has":
		m, k := arg(0), arg(1)
		mt, ok := m.Type.Underlying().(*types.Map)
		if !ok {
			env.fail("'in' needs a map")
		}
		dn, _, _ := e.mapComps(mt)
		ks := e.sorts.sortOf(mt.Key())
		d := e.comp(env.st, dn, arrSort(arrSortK(ks, sBool)))
		return term(sel(sel(d, m.T), k.T), sBool, boolT)
	case "dom":
		m := arg(0)
		mt := m.Type.Underlying().(*types.Map)
		dn, _, _ := e.mapComps(mt)
		ks := e.sorts.sortOf(mt.Key())
		return term(sel(e.comp(env.st, dn, arrSort(arrSortK(ks, sBool))), m.T), arrSortK(ks, sBool), nil)
	case "vals":
		m := arg(0)
		mt := m.Type.Underlying().(*types.Map)
		_, vn, _ := e.mapComps(mt)
		ks, vs := e.sorts.sortOf(mt.Key()), e.sorts.sortOf(mt.Elem())
		return term(sel(e.comp(env.st, vn, arrSort(arrSortK(ks, vs))), m.T), arrSortK(ks, vs), nil)
	case "alldom": // alldom(m): the domain component of EVERY map of m's type, indexed by map reference (for spec functions that follow pointers)
		m := arg(0)
		mt := m.Type.Underlying().(*types.Map)
		dn, _, _ := e.mapComps(mt)
		ks := e.sorts.sortOf(mt.Key())
		return term(e.comp(env.st, dn, arrSort(arrSortK(ks, sBool))), arrSort(arrSortK(ks, sBool)), nil)
	case "allvals":
		m := arg(0)
		mt := m.Type.Underlying().(*types.Map)
		_, vn, _ := e.mapComps(mt)
		ks, vs := e.sorts.sortOf(mt.Key()), e.sorts.sortOf(mt.Elem())
		return term(e.comp(env.st, vn, arrSort(arrSortK(ks, vs))), arrSort(arrSortK(ks, vs)), nil)
	case "hfield": // hfield("symbol.Scope.Parent"): the whole heap component of a struct field, indexed by object reference
		if len(n.Kids) != 1 || n.Kids[0].Op != "str" {
			env.fail("hfield(\"pkg.Struct.Field\")")
		}
		cn := "H." + n.Kids[0].Lit
		srt, ok := e.compSort[cn]
		if !ok {
			srt = e.fieldCompSort(cn, env.fnPkg)
			if srt == "" {
				env.fail("hfield: unknown field %s", n.Kids[0].Lit)
			}
		}
		return term(e.comp(env.st, cn, srt), srt, nil)
	case "arr": // element array of a slice
		x := arg(0)
		u, ok := x.Type.Underlying().(*types.Slice)
		if !ok {
			env.fail("arr() needs a slice")
		}
		es := e.sorts.sortOf(u.Elem())
		return term(sel(e.comp(env.st, e.elemComp(u.Elem()), arr2Sort(es)), app("sarr", x.T)), arrSort(es), nil)
	case "arrid":
		return term(app("sarr", arg(0).T), sInt, nil)
	case "off":
		return term(app("soff", arg(0).T), sInt, intT)
	case "ite":
		c := env.evalBool(n.Kids[0])
		a, b := arg(1), arg(2)
		a, b = env.coerceNil(a, b)
		return term(ite(c, a.T, b.T), a.Sort, a.Type)
	case "heldW", "heldR":
		l := env.lockLoc(n.Kids[0])
		wn, rn, idx := e.lockComps(l)
		if n.Name == "heldW" {
			return term(sel(e.comp(env.st, wn, arrSort(sBool)), idx), sBool, boolT)
		}
		return term(sel(e.comp(env.st, rn, arrSort(sInt)), idx), sInt, intT)
	case "fresh":
		x := arg(0)
		if env.old == nil {
			env.fail("fresh() needs a pre-state")
		}
		t := x.T
		if x.Sort == sSlice {
			t = app("sarr", x.T)
		}
		return term(and(not(sel(e.comp(env.old, "alloc", arrSort(sBool)), t)), not(eq(t, "0"))), sBool, boolT)
	case "isnew": // nil, or allocated after function entry
		x := arg(0)
		if env.old == nil {
			env.fail("isnew() needs a pre-state")
		}
		t := x.T
		if x.Sort == sSlice {
			t = app("sarr", x.T)
		}
		a0 := e.comp(env.f.entry, "alloc", arrSort(sBool))
		return term(or(eq(t, "0"), not(sel(a0, t))), sBool, boolT)
	case "exempt": // exempt(x): object x is not subject to lock discipline in this call: allocated by the call, or thread-private
		x := arg(0)
		ent := e.topEntry
		if ent == nil {
			ent = env.f.entry
		}
		if ent == nil {
			ent = env.old
		}
		if ent == nil {
			ent = env.st
		}
		a0 := e.comp(ent, "alloc", arrSort(sBool))
		return term(or(not(sel(a0, x.T)), sel(e.unshComp(), x.T)), sBool, boolT)
	case "allocated":
		x := arg(0)
		return term(sel(e.comp(env.st, "alloc", arrSort(sBool)), x.T), sBool, boolT)
	case "at": // at(m, k): Go's m[k] on a map, the zero value when k is absent (m[k] in contracts is the raw entry)
		m, k := arg(0), arg(1)
		mt, ok := m.Type.Underlying().(*types.Map)
		if !ok {
			env.fail("at() needs a map")
		}
		dn, vn, _ := e.mapComps(mt)
		ks, vs := e.sorts.sortOf(mt.Key()), e.sorts.sortOf(mt.Elem())
		d := e.comp(env.st, dn, arrSort(arrSortK(ks, sBool)))
		vv := e.comp(env.st, vn, arrSort(arrSortK(ks, vs)))
		return term(ite(and(not(eq(m.T, "0")), sel(sel(d, m.T), k.T)), sel(sel(vv, m.T), k.T), e.sorts.zero(mt.Elem())), vs, mt.Elem())
	case "slt": // string order (Go's < on strings; uninterpreted)
		return term(app("s.lt", arg(0).T, arg(1).T), sBool, boolT)
	case "feq": // IEEE equality (NaN != NaN, +0 == -0); contract `==` on floats is identity
		return term(app("fp.eq", arg(0).T, arg(1).T), sBool, boolT)
	case "isNaN":
		return term(app("fp.isNaN", arg(0).T), sBool, boolT)
	case "isInf":
		x := arg(0)
		sg := arg(1)
		return term(ite(app(">", sg.T, "0"), and(app("fp.isInfinite", x.T), app("fp.isPositive", x.T)),
			ite(app("<", sg.T, "0"), and(app("fp.isInfinite", x.T), app("fp.isNegative", x.T)), app("fp.isInfinite", x.T))), sBool, boolT)
	case "tag":
		return term(app("tagof", arg(0).T), sInt, intT)
	case "ref": // payload of an interface holding a pointer
		return term(app("aref", arg(0).T), sInt, nil)
	case "as": // as(x, "T"): payload viewed as Go type T
		x := arg(0)
		tn := n.Kids[1]
		if tn.Op != "str" {
			env.fail("as(x, \"T\") needs a type name string")
		}
		t := e.lookupType(tn.Lit, env.fnPkg)
		if t == nil {
			env.fail("unknown type %s", tn.Lit)
		}
		return e.unwrapAny(x.T, t)
	case "ev": // expvar.Int ghost counter
		return term(sel(e.comp(env.st, "EV.int", arrSort(sInt)), arg(0).T), sInt, intT)
	case "evmap":
		return term(sel(sel(e.comp(env.st, "EV.map", arrSort(arrSortK(sStr, sInt))), arg(0).T), arg(1).T), sInt, intT)
	case "closed":
		return term(sel(e.comp(env.st, "CH.closed", arrSort(sBool)), arg(0).T), sBool, boolT)
	case "nsent":
		return term(sel(e.comp(env.st, "CH.nsent", arrSort(sInt)), arg(0).T), sInt, intT)
	case "sentv": // sentv(c, k): k-th value sent on c
		c := arg(0)
		vn, vs := env.f.chanValsComp(c.Type)
		el := c.Type.Underlying().(*types.Chan).Elem()
		return term(sel(sel(e.comp(env.st, vn, arrSort(arrSort(vs))), c.T), arg(1).T), vs, el)
	case "ntaken": // values taken from a channel by plain receives (not the hand-off idiom) so far
		return term(sel(e.comp(env.st, "CH.taken", arrSort(sInt)), arg(0).T), sInt, intT)
	case "nrecv":
		return term(sel(e.comp(env.st, "CH.nrecv", arrSort(sInt)), arg(0).T), sInt, intT)
	case "pending":
		return term(sel(e.comp(env.st, "CH.pending", arrSort(sInt)), arg(0).T), sInt, intT)
	case "seen": // seen(k): key k of the ranged-over map has been visited by this loop (only in invariants of a map-range loop)
		if env.seenComp == "" {
			env.fail("seen(k) is only meaningful in an invariant of a loop that ranges over a map")
		}
		return term(sel(e.comp(env.st, env.seenComp, arrSortK(env.seenSort, sBool)), arg(0).T), sBool, boolT)
	case "defined":
		if env.defined == nil || len(n.Kids) != 1 || n.Kids[0].Op != "name" {
			env.fail("defined(x) takes one local variable name and is only meaningful in a 'loop N backedge' clause")
		}
		return term(env.defined(n.Kids[0].Name), sBool, boolT)
	case "i2f":
		return term(app("i2f", arg(0).T), sF64, types.Typ[types.Float64])
	case "unixnano":
		return term(arg(0).T, sInt, types.Typ[types.Int64])
	case "iszerotime":
		return term(eq(arg(0).T, timeZeroNs), sBool, boolT)
	}
	// contract-language predicate: expand with arguments bound
	if pd := e.ct.Preds[n.Name]; pd != nil {
		if len(pd.Params) != len(n.Kids) {
			env.fail("pred %s expects %d arguments", n.Name, len(pd.Params))
		}
		sub := &Env{f: env.f, names: map[string]*Value{}, bound: env.bound, st: env.st, old: env.old, fnPkg: env.fnPkg}
		for i, prm := range pd.Params {
			sub.names[prm.Name] = arg(i)
		}
		if pkg := e.pkgOfFile(pd.File); pkg != nil {
			sub.fnPkg = pkg
		}
		return sub.eval(pd.Body)
	}
	// spec function
	if sf := e.ct.Specs[n.Name]; sf != nil {
		if len(sf.Params) != len(n.Kids) {
			env.fail("spec %s expects %d arguments", n.Name, len(sf.Params))
		}
		var as []string
		for i := range n.Kids {
			a := arg(i)
			if a.Loc != nil {
				a = e.load(env.st, a.Loc)
			}
			if a.Sort == "NIL" {
				a = term(zeroOfSort(sf.Params[i].Type), sf.Params[i].Type, nil)
				if sf.Params[i].Type == sInt {
					a.T = "0"
				}
			}
			if a.Sort != sf.Params[i].Type {
				env.fail("argument %d of %s has sort %s, expected %s (in %s)", i+1, n.Name, a.Sort, sf.Params[i].Type, n)
			}
			as = append(as, a.T)
		}
		if len(as) == 0 {
			return term(sf.Name, sf.Ret, nil)
		}
		return term(app(sf.Name, as...), sf.Ret, nil)
	}
	env.fail("unknown function %s in %s", n.Name, n)
	return nil
}

// havocTarget havocs the location(s) denoted by a modifies expression (evaluated in env.st = pre-state) in state st.
func (env *Env) havocTarget(n *Node, st *State) {
	e := env.e()
	for _, t := range env.targets(n) {
		switch t.kind {
		case "loc":
			l := t.loc
			if l.Comp == "" { // whole struct object: all fields
				_, s := derefStruct(l.Type)
				for i := 0; i < s.NumFields(); i++ {
					fl := e.fieldLoc(l, s.Field(i))
					e.writeRootIn(st, fl, e.declare("havoc."+s.Field(i).Name(), e.rootSort(fl)))
				}
				continue
			}
			e.writeRootIn(st, l, e.declare("havoc", e.rootSort(l)))
		case "elems":
			c := e.comp(st, t.comp, "")
			e.setComp(st, t.comp, store(c, t.idx, e.declare("havoc.arr", arrayElemSort(e.compSort[t.comp]))))
		case "comp":
			if _, known := e.compSort[t.comp]; !known && t.sort == "" {
				t.sort = e.fieldCompSort(t.comp, env.fnPkg)
			}
			e.comp(st, t.comp, t.sort)
			e.havocComp(st, t.comp)
		}
	}
}

func (e *Encoder) writeRootIn(st *State, l *Loc, v string) {
	if len(l.Path) > 0 {
		v2 := e.updatePath(e.readRoot(st, l), l.Path, e.declare("havoc.f", e.sorts.sortOf(l.Type)))
		e.writeRoot(st, l, v2)
		return
	}
	e.writeRoot(st, l, v)
}

type target struct {
	kind string // loc, elems, comp
	loc  *Loc
	comp string
	idx  string
	sort string
}

// targets resolves a modifies expression to heap targets.
func (env *Env) targets(n *Node) []target {
	e := env.e()
	switch n.Op {
	case "allelems":
		x := env.eval(n.Kids[0])
		switch u := x.Type.Underlying().(type) {
		case *types.Slice:
			cn := e.elemComp(u.Elem())
			e.comp(env.st, cn, arr2Sort(e.sorts.sortOf(u.Elem())))
			return []target{{kind: "elems", comp: cn, idx: app("sarr", x.T)}}
		case *types.Map:
			dn, vn, ln := e.mapComps(u)
			ks, vs := e.sorts.sortOf(u.Key()), e.sorts.sortOf(u.Elem())
			e.comp(env.st, dn, arrSort(arrSortK(ks, sBool)))
			e.comp(env.st, vn, arrSort(arrSortK(ks, vs)))
			e.comp(env.st, ln, arrSort(sInt))
			return []target{{kind: "elems", comp: dn, idx: x.T}, {kind: "elems", comp: vn, idx: x.T}, {kind: "elems", comp: ln, idx: x.T}}
		}
		env.fail("[*] needs a slice or map: %s", n)
	case "field":
		x := env.eval(n.Kids[0])
		if g := e.ct.Ghost[namedPathShort(x.Type)+"."+n.Name]; g != nil {
			cn := "H." + g.Struct + "." + g.Name
			e.comp(env.st, cn, arrSort(g.Sort))
			idx := x.T
			if x.Loc != nil {
				idx = x.Loc.Idx[0]
			}
			return []target{{kind: "elems", comp: cn, idx: idx}}
		}
		obj, path, _ := types.LookupFieldOrMethod(x.Type, true, env.fnPkg, n.Name)
		if _, ok := obj.(*types.Var); !ok {
			env.fail("no field %s in %s", n.Name, n)
		}
		var l *Loc
		if x.Loc != nil {
			l = x.Loc
		} else {
			l = e.ptrLoc(x)
		}
		for _, idx := range path {
			_, s := derefStruct(l.Type)
			l = e.fieldLoc(l, s.Field(idx))
		}
		return []target{{kind: "loc", loc: l}}
	case "index":
		x := env.eval(n.Kids[0])
		i := env.eval(n.Kids[1])
		switch u := x.Type.Underlying().(type) {
		case *types.Slice:
			return []target{{kind: "loc", loc: &Loc{Comp: e.elemComp(u.Elem()), Idx: []string{app("sarr", x.T), app("idx", x.T, i.T)}, Type: u.Elem(), Root: u.Elem()}}}
		}
		env.fail("unsupported modifies target %s", n)
	case "call":
		switch n.Name {
		case "comp": // comp("EV.map"): a whole component by name
			if n.Kids[0].Op != "str" {
				env.fail("comp(\"name\")")
			}
			return []target{{kind: "comp", comp: n.Kids[0].Lit}}
		case "all": // all(x): every field of the object x points to
			x := env.eval(n.Kids[0])
			return []target{{kind: "loc", loc: e.ptrLoc(x)}}
		case "chan": // chan(c): ghost state of channel c
			c := env.eval(n.Kids[0])
			vn, vs := env.f.chanValsComp(c.Type)
			e.comp(env.st, vn, arrSort(arrSort(vs)))
			e.comp(env.st, "CH.nsent", arrSort(sInt))
			e.comp(env.st, "CH.closed", arrSort(sBool))
			return []target{{kind: "elems", comp: vn, idx: c.T}, {kind: "elems", comp: "CH.nsent", idx: c.T}, {kind: "elems", comp: "CH.closed", idx: c.T}}
		case "ev":
			c := env.eval(n.Kids[0])
			e.comp(env.st, "EV.int", arrSort(sInt))
			return []target{{kind: "elems", comp: "EV.int", idx: c.T}}
		case "evmap":
			c := env.eval(n.Kids[0])
			e.comp(env.st, "EV.map", arrSort(arrSortK(sStr, sInt)))
			return []target{{kind: "elems", comp: "EV.map", idx: c.T}}
		}
	case "name":
		v := env.lookupName(n.Name)
		if v != nil && v.Loc != nil {
			return []target{{kind: "loc", loc: v.Loc}}
		}
	}
	env.fail("unsupported modifies target %s", n)
	return nil
}

var _ = ssa.BuilderMode(0)

// pkgOfFile finds the loaded package whose directory contains a contracts file.
func (e *Encoder) pkgOfFile(file string) *types.Package {
	dir := file[:strings.LastIndex(file, "/")]
	for _, p := range e.prog.SSA.AllPackages() {
		if p.Pkg != nil && strings.HasPrefix(p.Pkg.Path(), "github.com/google/mtail/") {
			rel := strings.TrimPrefix(p.Pkg.Path(), "github.com/google/mtail")
			if strings.HasSuffix(dir, rel) {
				return p.Pkg
			}
		}
	}
	return nil
}

// evalSplit evaluates a boolean contract expression into a list of conjuncts (A && B, A ==> (B && C) and predicate
// calls are split recursively) so that each becomes a small obligation of its own.
func (env *Env) evalSplit(n *Node) []string {
	switch {
	case n.Op == "binop" && n.Name == "&&":
		return append(env.evalSplit(n.Kids[0]), env.evalSplit(n.Kids[1])...)
	case n.Op == "binop" && n.Name == "==>":
		a := env.evalBool(n.Kids[0])
		var out []string
		for _, g := range env.evalSplit(n.Kids[1]) {
			out = append(out, implies(a, g))
		}
		return out
	case n.Op == "call" && env.e().ct.Preds[shortName(n.Name)] != nil:
		pd := env.e().ct.Preds[shortName(n.Name)]
		if len(pd.Params) != len(n.Kids) {
			env.fail("pred %s expects %d arguments", n.Name, len(pd.Params))
		}
		sub := &Env{f: env.f, names: map[string]*Value{}, bound: env.bound, st: env.st, old: env.old, fnPkg: env.fnPkg}
		for i, prm := range pd.Params {
			sub.names[prm.Name] = env.eval(n.Kids[i])
		}
		if pkg := env.e().pkgOfFile(pd.File); pkg != nil {
			sub.fnPkg = pkg
		}
		return sub.evalSplit(pd.Body)
	}
	return []string{env.evalBool(n)}
}


// fieldCompSort gives the sort of a field component named "H.<pkg>.<Struct>.<Field>" that the current function has
// not touched yet (needed when a callee's frame names it with comp("...")).
func (e *Encoder) fieldCompSort(name string, from *types.Package) string {
	parts := strings.Split(name, ".")
	if len(parts) == 3 && parts[0] == "G" {
		// package-level variable: one cell (index 0) holding the variable's value
		for _, p := range e.prog.SSA.AllPackages() {
			if shortPkg(p.Pkg.Path()) == parts[1] {
				if g, ok := p.Members[parts[2]].(*ssa.Global); ok {
					return arrSort(e.sorts.sortOf(g.Type().(*types.Pointer).Elem()))
				}
			}
		}
		return ""
	}
	if len(parts) != 4 || parts[0] != "H" {
		return ""
	}
	if g := e.ct.Ghost[parts[1]+"."+parts[2]+"."+parts[3]]; g != nil {
		return arrSort(g.Sort)
	}
	t := e.lookupType(parts[1]+"."+parts[2], from)
	if t == nil {
		return ""
	}
	_, s := derefStruct(types.NewPointer(t))
	if s == nil {
		return ""
	}
	for i := 0; i < s.NumFields(); i++ {
		if s.Field(i).Name() == parts[3] {
			l := e.fieldLoc(&Loc{Comp: "", Idx: []string{"0"}, Type: t, Root: t}, s.Field(i))
			if l.Comp != name {
				return ""
			}
			return arrSort(e.rootSort(l))
		}
	}
	return ""
}
