package main

import (
	"bytes"
	"context"
	"fmt"
	"os"
	"os/exec"
	"path/filepath"
	"strings"
	"sync"
	"time"
)

type solverSpec struct {
	name string
	argv func(file string, timeoutS int, seed int) []string
}

var solvers = []solverSpec{
	{"z3-new", func(f string, t, seed int) []string {
		return []string{"z3-new", fmt.Sprintf("-T:%d", t), fmt.Sprintf("smt.random_seed=%d", seed), f}
	}},
	{"cvc5", func(f string, t, seed int) []string {
		return []string{"cvc5", "--lang", "smt2", fmt.Sprintf("--tlimit=%d", t*1000), fmt.Sprintf("--seed=%d", seed), f}
	}},
	{"z3", func(f string, t, seed int) []string {
		return []string{"z3", fmt.Sprintf("-T:%d", t), fmt.Sprintf("smt.random_seed=%d", seed), f}
	}},
	// same solver, relevancy propagation off: decides several array/quantifier goals in ~1 s that take the default >15 s
	{"z3-new-r0", func(f string, t, seed int) []string {
		return []string{"z3-new", fmt.Sprintf("-T:%d", t), "smt.relevancy=0", fmt.Sprintf("smt.random_seed=%d", seed), f}
	}},
}

type solveOpts struct {
	timeoutS int
	seed     int
	outDir   string
	all      bool // thorough: wait for every solver, record each answer
}

type solverAnswer struct {
	solver  string
	answer  string // unsat sat unknown timeout error
	seconds float64
	output  string
}

func fileSafe(name string) string {
	r := strings.NewReplacer("/", "_", "(", "", ")", "", "*", "", "$", "_", "#", "__", " ", "_", "@", "_at_", ":", "_")
	return r.Replace(name)
}

func runSolver(ctx context.Context, sp solverSpec, file string, timeoutS, seed int) solverAnswer {
	argv := sp.argv(file, timeoutS, seed)
	t0 := time.Now()
	cctx, cancel := context.WithTimeout(ctx, time.Duration(timeoutS+2)*time.Second)
	defer cancel()
	cmd := exec.CommandContext(cctx, argv[0], argv[1:]...)
	var out bytes.Buffer
	cmd.Stdout = &out
	cmd.Stderr = &out
	cmd.Run()
	ans := solverAnswer{solver: sp.name, seconds: time.Since(t0).Seconds(), output: out.String()}
	first := strings.TrimSpace(strings.SplitN(out.String(), "\n", 2)[0])
	if strings.Contains(out.String(), "(error") && !strings.Contains(out.String(), "model is not available") {
		first = "error"
	}
	switch first {
	case "unsat", "sat", "unknown":
		ans.answer = first
	case "timeout":
		ans.answer = "timeout"
	default:
		if ctx.Err() != nil || cctx.Err() != nil {
			ans.answer = "timeout"
		} else if strings.Contains(out.String(), "timeout") || strings.Contains(out.String(), "interrupted") {
			ans.answer = "timeout"
		} else {
			ans.answer = "error"
		}
	}
	return ans
}

// discharge decides one obligation by racing the solvers.
func discharge(o *Obligation, opts solveOpts) {
	q := o.query()
	o.Bytes = len(q)
	file := filepath.Join(opts.outDir, fileSafe(o.Name)+".smt2")
	if err := os.WriteFile(file, []byte(q), 0o644); err != nil {
		o.Status, o.Output = "error", err.Error()
		return
	}
	files := []string{file}
	tags := []string{""}
	if o.Standalone == "" {
		// weaker variants (each drops premises, so `unsat` on any of them still proves the obligation):
		// without the lemmas (un-patterned lemma quantifiers can derail goals that do not need them), and with
		// recursive spec functions left uninterpreted (solvers may unfold define-fun-rec on symbolic arguments forever).
		add := func(tag string, lemmas, opaque bool) {
			text := o.queryWith(lemmas, opaque)
			if text == q {
				return
			}
			for _, fl := range files[1:] {
				if old, _ := os.ReadFile(fl); string(old) == text {
					return
				}
			}
			p := filepath.Join(opts.outDir, fileSafe(o.Name)+"."+tag+".smt2")
			os.WriteFile(p, []byte(text), 0o644)
			files = append(files, p)
			tags = append(tags, tag)
		}
		if o.hasLemmas() {
			add("nolemmas", false, false)
		}
		add("opaque", true, true)
		if o.hasLemmas() {
			add("opaque-nolemmas", false, true)
		}
	}
	trigIdx := -1
	if t := trigVariant(q); t != "" {
		p := filepath.Join(opts.outDir, fileSafe(o.Name)+".trig.smt2")
		os.WriteFile(p, []byte(t), 0o644)
		files = append(files, p)
		tags = append(tags, "trig")
		trigIdx = len(files) - 1
	}
	fpIdx := -1
	{
		base := q
		if trigIdx >= 0 {
			if b, err := os.ReadFile(files[trigIdx]); err == nil {
				base = string(b)
			}
		}
		if t := fpabsVariant(base); t != "" {
			p := filepath.Join(opts.outDir, fileSafe(o.Name)+".fpabs.smt2")
			os.WriteFile(p, []byte(t), 0o644)
			files = append(files, p)
			tags = append(tags, "fpabs")
			fpIdx = len(files) - 1
		}
	}
	// The portfolio is run in two stages so that the many easy obligations cost two short solver runs each, and the
	// number of solver processes alive at once is capped (procSem) - oversubscribing the cores turns 1 s proofs into timeouts.
	type job struct {
		sp solverSpec
		fi int
		to int
	}
	last := len(files) - 1
	if fpIdx >= 0 {
		last = fpIdx - 1
	}
	if trigIdx >= 0 {
		last = trigIdx - 1
	}
	stage1 := []job{{solvers[0], last, minInt(2, opts.timeoutS)}, {solvers[1], 0, minInt(2, opts.timeoutS)}}
	if trigIdx >= 0 {
		stage1 = append(stage1, job{solvers[1], trigIdx, minInt(2, opts.timeoutS)}, job{solvers[3], trigIdx, minInt(2, opts.timeoutS)})
	}
	if fpIdx >= 0 {
		stage1 = append(stage1, job{solvers[0], fpIdx, minInt(2, opts.timeoutS)}, job{solvers[3], fpIdx, minInt(2, opts.timeoutS)})
	}
	var stage2 []job
	for fi := len(files) - 1; fi >= 0; fi-- {
		for _, si := range []int{3, 0, 2, 1} {
			stage2 = append(stage2, job{solvers[si], fi, opts.timeoutS})
		}
	}
	if opts.all {
		stage1 = nil
	}
	var answers []solverAnswer
	var decided *solverAnswer
	runStage := func(jobs []job) {
		ctx, cancel := context.WithCancel(context.Background())
		defer cancel()
		ch := make(chan solverAnswer, len(jobs))
		for _, j := range jobs {
			go func(j job) {
				select {
				case procSem <- struct{}{}:
				case <-ctx.Done():
					ch <- solverAnswer{solver: j.sp.name, answer: "cancelled"}
					return
				}
				a := runSolver(ctx, j.sp, files[j.fi], j.to, opts.seed)
				<-procSem
				if j.fi >= 1 {
					a.solver += "(" + tags[j.fi] + ")"
					if a.answer == "sat" {
						a.answer = "unknown" // a model of the weaker premise set refutes nothing
					}
				}
				ch <- a
			}(j)
		}
		for range jobs {
			a := <-ch
			if a.answer == "cancelled" {
				continue
			}
			answers = append(answers, a)
			if (a.answer == "unsat" || a.answer == "sat") && decided == nil {
				ac := a
				decided = &ac
				if !opts.all {
					cancel()
					return
				}
			}
		}
	}
	if len(stage1) > 0 {
		runStage(stage1)
	}
	if decided == nil || opts.all {
		runStage(stage2)
	}
	var logb strings.Builder
	sawSat, sawUnsat := false, false
	for _, a := range answers {
		fmt.Fprintf(&logb, "[%s %.2fs] %s\n", a.solver, a.seconds, a.answer)
		if a.answer == "error" {
			fmt.Fprintf(&logb, "%s\n", firstLines(a.output, 6))
		}
		if a.answer == "sat" {
			sawSat = true
		}
		if a.answer == "unsat" {
			sawUnsat = true
		}
	}
	o.Output = logb.String()
	switch {
	case sawSat && sawUnsat:
		o.Status = "error"
		o.Output += "solver disagreement (tool error)\n"
	case decided != nil && decided.answer == "unsat":
		o.Status, o.Solver, o.Seconds = "proved", decided.solver, decided.seconds
		if opts.all {
			var ss []string
			for _, a := range answers {
				if a.answer == "unsat" {
					ss = append(ss, a.solver)
				}
			}
			o.Solver = strings.Join(ss, "+")
		}
	case decided != nil && decided.answer == "sat":
		o.Status, o.Solver, o.Seconds = "failed", decided.solver, decided.seconds
	default:
		o.Status = "unknown"
		nErr := 0
		for _, a := range answers {
			if a.seconds > o.Seconds {
				o.Seconds = a.seconds
			}
			if a.answer == "error" {
				nErr++
			}
		}
		if nErr == len(answers) && nErr > 0 {
			o.Status = "error" // every solver rejected the query: a tool error, not a verdict
		}
	}
}

func firstLines(s string, n int) string {
	ls := strings.Split(s, "\n")
	if len(ls) > n {
		ls = ls[:n]
	}
	return strings.Join(ls, "\n")
}

// getModel re-runs a failed obligation on z3-new asking for values of the named constants.
func getModel(o *Obligation, opts solveOpts, consts []string) string {
	q := o.query()
	q = strings.Replace(q, "(check-sat)\n", "(check-sat)\n(get-model)\n", 1)
	file := filepath.Join(opts.outDir, fileSafe(o.Name)+".model.smt2")
	os.WriteFile(file, []byte(q), 0o644)
	for _, sp := range []solverSpec{solvers[0], solvers[2]} {
		a := runSolver(context.Background(), sp, file, opts.timeoutS, opts.seed)
		if a.answer == "sat" {
			return a.output
		}
	}
	return ""
}

// dischargeAll runs obligations in parallel.
func dischargeAll(obls []*Obligation, opts solveOpts, par int) {
	var wg sync.WaitGroup
	sem := make(chan struct{}, par)
	// fail fast: once several obligations of one function have not discharged, the function is broken (or its
	// contract no longer fits it); the remaining ones get one short attempt, no retry and no case split
	var mu sync.Mutex
	failedIn := map[string]int{}  // obligations of the function that did not discharge
	refutedIn := map[string]int{} // ... of which with a counter-model
	for _, o := range obls {
		wg.Add(1)
		sem <- struct{}{}
		go func(o *Obligation) {
			defer wg.Done()
			defer func() { <-sem }()
			oo := opts
			if o.MustFail {
				// canaries are expected NOT to be provable; an inconsistent context is refuted at once, so one
				// short run of two solvers on the full query is enough
				dischargeCanary(o, oo)
				return
			}
			mu.Lock()
			hopeless := ((refutedIn[o.Func] >= 1 && failedIn[o.Func] >= 4) || failedIn[o.Func] >= 10) && !oo.all
			mu.Unlock()
			if (o.KnownOpen || hopeless) && oo.timeoutS > 4 && !oo.all {
				oo.timeoutS = 4
			}
			defer func() {
				if o.Status != "proved" && !o.KnownOpen { // counted on the final verdict only (after retry / case split)
					mu.Lock()
					failedIn[o.Func]++
					if o.Status == "failed" {
						refutedIn[o.Func]++
					}
					mu.Unlock()
				}
			}()
			discharge(o, oo)
			if o.KnownOpen || hopeless {
				return
			}
			if o.Status == "unknown" && !o.MustFail {
				// one retry with doubled timeout and another seed
				o2 := opts
				o2.timeoutS *= 2
				o2.seed += 7
				discharge(o, o2)
			}
			if o.Status == "unknown" && !o.MustFail && len(o.Cases) >= 2 {
				// case split over the edges entering the obligation's block: proved iff every case is proved
				all := true
				var secs float64
				var log strings.Builder
				log.WriteString(o.Output)
				for i, cs := range o.Cases {
					sub := *o
					sub.Cases = nil
					sub.Name = fmt.Sprintf("%s.case%d", o.Name, i+1)
					sub.PC = and(o.PC, cs)
					discharge(&sub, oo)
					fmt.Fprintf(&log, "case %d (%s): %s\n%s", i+1, cs, sub.Status, sub.Output)
					secs += sub.Seconds
					if sub.Status != "proved" {
						all = false
						break
					}
				}
				o.Output = log.String()
				if all {
					o.Status, o.Solver, o.Seconds = "proved", "case-split", secs
				}
			}
		}(o)
	}
	wg.Wait()
	// last chance: an obligation that only timed out (no counter-model) is tried once more on its own, with a long
	// limit, now that nothing else competes for the processors - a loaded machine must not turn a slow proof into an
	// alarm.  Functions that already failed several obligations are not revisited, and at most 8 obligations are.
	if !opts.all {
		refuted := map[string]int{} // obligations of the function with a counter-model: the function is really broken
		for _, o := range obls {
			if o.Status == "failed" && !o.MustFail {
				refuted[o.Func]++
			}
		}
		tried := 0
		for _, o := range obls {
			if o.Status != "unknown" || o.MustFail || o.KnownOpen || refuted[o.Func] >= 2 || tried >= 8 {
				continue
			}
			tried++
			o2 := opts
			o2.timeoutS = maxInt(60, opts.timeoutS*4)
			o2.seed += 13
			prev := o.Output
			discharge(o, o2)
			o.Output = prev + "\n[last-chance pass, " + fmt.Sprint(o2.timeoutS) + " s]\n" + o.Output
		}
	}
}
