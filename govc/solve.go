package main

import (
	"bytes"
	"context"
	"fmt"
	"os"
	"os/exec"
	"path/filepath"
	"strings"
	"sync"
	"time"
)

type solverSpec struct {
	name string
	argv func(file string, timeoutS int, seed int) []string
}

var solvers = []solverSpec{
	{"z3-new", func(f string, t, seed int) []string {
		return []string{"z3-new", fmt.Sprintf("-T:%d", t), fmt.Sprintf("smt.random_seed=%d", seed), f}
	}},
	{"cvc5", func(f string, t, seed int) []string {
		return []string{"cvc5", "--lang", "smt2", fmt.Sprintf("--tlimit=%d", t*1000), fmt.Sprintf("--seed=%d", seed), f}
	}},
	{"z3", func(f string, t, seed int) []string {
		return []string{"z3", fmt.Sprintf("-T:%d", t), fmt.Sprintf("smt.random_seed=%d", seed), f}
	}},
}

type solveOpts struct {
	timeoutS int
	seed     int
	outDir   string
	all      bool // thorough: wait for every solver, record each answer
}

type solverAnswer struct {
	solver  string
	answer  string // unsat sat unknown timeout error
	seconds float64
	output  string
}

func fileSafe(name string) string {
	r := strings.NewReplacer("/", "_", "(", "", ")", "", "*", "", "$", "_", "#", "__", " ", "_", "@", "_at_", ":", "_")
	return r.Replace(name)
}

func runSolver(ctx context.Context, sp solverSpec, file string, timeoutS, seed int) solverAnswer {
	argv := sp.argv(file, timeoutS, seed)
	t0 := time.Now()
	cctx, cancel := context.WithTimeout(ctx, time.Duration(timeoutS+2)*time.Second)
	defer cancel()
	cmd := exec.CommandContext(cctx, argv[0], argv[1:]...)
	var out bytes.Buffer
	cmd.Stdout = &out
	cmd.Stderr = &out
	cmd.Run()
	ans := solverAnswer{solver: sp.name, seconds: time.Since(t0).Seconds(), output: out.String()}
	first := strings.TrimSpace(strings.SplitN(out.String(), "\n", 2)[0])
	if strings.Contains(out.String(), "(error") && !strings.Contains(out.String(), "model is not available") {
		first = "error"
	}
	switch first {
	case "unsat", "sat", "unknown":
		ans.answer = first
	case "timeout":
		ans.answer = "timeout"
	default:
		if ctx.Err() != nil || cctx.Err() != nil {
			ans.answer = "timeout"
		} else if strings.Contains(out.String(), "timeout") || strings.Contains(out.String(), "interrupted") {
			ans.answer = "timeout"
		} else {
			ans.answer = "error"
		}
	}
	return ans
}

// discharge decides one obligation by racing the solvers.
func discharge(o *Obligation, opts solveOpts) {
	q := o.query()
	o.Bytes = len(q)
	file := filepath.Join(opts.outDir, fileSafe(o.Name)+".smt2")
	if err := os.WriteFile(file, []byte(q), 0o644); err != nil {
		o.Status, o.Output = "error", err.Error()
		return
	}
	ctx, cancel := context.WithCancel(context.Background())
	defer cancel()
	ch := make(chan solverAnswer, len(solvers))
	for _, sp := range solvers {
		go func(sp solverSpec) { ch <- runSolver(ctx, sp, file, opts.timeoutS, opts.seed) }(sp)
	}
	var answers []solverAnswer
	var decided *solverAnswer
	for range solvers {
		a := <-ch
		answers = append(answers, a)
		if (a.answer == "unsat" || a.answer == "sat") && decided == nil {
			ac := a
			decided = &ac
			if !opts.all {
				cancel()
				break
			}
		}
	}
	var logb strings.Builder
	sawSat, sawUnsat := false, false
	for _, a := range answers {
		fmt.Fprintf(&logb, "[%s %.2fs] %s\n", a.solver, a.seconds, a.answer)
		if a.answer == "error" {
			fmt.Fprintf(&logb, "%s\n", firstLines(a.output, 6))
		}
		if a.answer == "sat" {
			sawSat = true
		}
		if a.answer == "unsat" {
			sawUnsat = true
		}
	}
	o.Output = logb.String()
	switch {
	case sawSat && sawUnsat:
		o.Status = "error"
		o.Output += "solver disagreement (tool error)\n"
	case decided != nil && decided.answer == "unsat":
		o.Status, o.Solver, o.Seconds = "proved", decided.solver, decided.seconds
		if opts.all {
			var ss []string
			for _, a := range answers {
				if a.answer == "unsat" {
					ss = append(ss, a.solver)
				}
			}
			o.Solver = strings.Join(ss, "+")
		}
	case decided != nil && decided.answer == "sat":
		o.Status, o.Solver, o.Seconds = "failed", decided.solver, decided.seconds
	default:
		o.Status = "unknown"
		for _, a := range answers {
			if a.seconds > o.Seconds {
				o.Seconds = a.seconds
			}
		}
	}
}

func firstLines(s string, n int) string {
	ls := strings.Split(s, "\n")
	if len(ls) > n {
		ls = ls[:n]
	}
	return strings.Join(ls, "\n")
}

// getModel re-runs a failed obligation on z3-new asking for values of the named constants.
func getModel(o *Obligation, opts solveOpts, consts []string) string {
	q := o.query()
	q = strings.Replace(q, "(check-sat)\n", "(check-sat)\n(get-model)\n", 1)
	file := filepath.Join(opts.outDir, fileSafe(o.Name)+".model.smt2")
	os.WriteFile(file, []byte(q), 0o644)
	for _, sp := range []solverSpec{solvers[0], solvers[2]} {
		a := runSolver(context.Background(), sp, file, opts.timeoutS, opts.seed)
		if a.answer == "sat" {
			return a.output
		}
	}
	return ""
}

// dischargeAll runs obligations in parallel.
func dischargeAll(obls []*Obligation, opts solveOpts, par int) {
	var wg sync.WaitGroup
	sem := make(chan struct{}, par)
	for _, o := range obls {
		wg.Add(1)
		sem <- struct{}{}
		go func(o *Obligation) {
			defer wg.Done()
			defer func() { <-sem }()
			oo := opts
			if o.MustFail {
				oo.timeoutS = 2 // canaries are expected not to be provable; an inconsistency shows up at once
				oo.all = false
			}
			discharge(o, oo)
			if o.Status == "unknown" && !o.MustFail {
				// one retry with doubled timeout and another seed
				o2 := opts
				o2.timeoutS *= 2
				o2.seed += 7
				discharge(o, o2)
			}
		}(o)
	}
	wg.Wait()
}
