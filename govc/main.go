package main

import (
	"fmt"
	"os"
	"strings"
)

func main() {
	if len(os.Args) < 2 {
		fmt.Fprintln(os.Stderr, "usage: govc dump <pattern> <func-substr> | check ...")
		os.Exit(2)
	}
	switch os.Args[1] {
	case "dump":
		p, err := loadProgram([]string{os.Args[2]})
		if err != nil {
			fmt.Fprintln(os.Stderr, err)
			os.Exit(2)
		}
		for _, n := range p.sortedFuncNames() {
			if len(os.Args) > 3 && !strings.Contains(n, os.Args[3]) {
				continue
			}
			fn := p.Funcs[n]
			fmt.Printf("=== %s (%d blocks)\n", n, len(fn.Blocks))
			fn.WriteTo(os.Stdout)
		}
	case "check":
		os.Exit(cmdCheck(os.Args[2:]))
	case "replay":
		os.Exit(cmdReplay(os.Args[2:]))
	default:
		fmt.Fprintln(os.Stderr, "unknown command")
		os.Exit(2)
	}
}
