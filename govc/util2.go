package main

import "go/types"

// typePkg returns the package declaring the (pointer to) named type t.
func typePkg(t types.Type) *types.Package {
	if p, ok := t.Underlying().(*types.Pointer); ok {
		t = p.Elem()
	}
	if p, ok := t.(*types.Pointer); ok {
		t = p.Elem()
	}
	if n, ok := t.(*types.Named); ok && n.Obj() != nil {
		return n.Obj().Pkg()
	}
	return nil
}
