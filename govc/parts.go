package main

// fieldOf returns field k of the struct value term v, syntactically when v is a known constructor application.
func (e *Encoder) fieldOf(ss *structSort, k int, v string) string {
	if ps, ok := e.parts[v]; ok && k < len(ps) {
		return ps[k]
	}
	return app(ss.Fields[k].Acc, v)
}
