package main

// noReadLoc is one location (component cell) the function under contract must not read.
type noReadLoc struct {
	comp, idx, src string
}
