package main

import (
	"go/token"
	"go/types"
	"strings"

	"golang.org/x/tools/go/ssa"
)

// Lock-discipline obligations (C11, DESIGN §8): a `guarded <struct>.<field> by <lockfield>` declaration makes every
// load of the field an obligation "the lock is held (read or write) on this path, or the object was allocated by
// this very call, or the function's contract declares the object unshared", every store an obligation "the write
// lock is held (same exemptions)"; `guarded <struct>.<field> atomic` forbids plain loads and stores altogether
// (sync/atomic calls are not plain accesses).  A map or slice value loaded from a guarded field carries the guard
// with it (Value.Guard), so that indexing, ranging over, updating or deleting from it is checked too.
// The obligations are tagged C11 only.

type guardInfo struct {
	key   string // "metrics.Metric.LabelValues"
	lockW string // LW.<comp>
	lockR string // LR.<comp>
	idx   string // object reference
	kind  string // lock field name, or "atomic"
}

const guardProp = "C11"

// guardOf: the guard protecting location l, if l is a (top-level) field of a heap object with a `guarded` declaration.
func (f *Frame) guardOf(l *Loc) *guardInfo {
	e := f.e
	if l == nil || len(e.ct.Guards) == 0 || !strings.HasPrefix(l.Comp, "H.") || len(l.Idx) != 1 {
		return nil
	}
	key := strings.TrimPrefix(l.Comp, "H.")
	kind, ok := e.ct.Guards[key]
	if !ok {
		return nil
	}
	g := &guardInfo{key: key, idx: l.Idx[0], kind: kind}
	if kind != "atomic" {
		// the lock is the field <kind> of the same object
		dot := strings.LastIndex(key, ".")
		lockComp := "H." + key[:dot] + "." + kind
		g.lockW, g.lockR = "LW."+lockComp, "LR."+lockComp
	}
	return g
}

func (f *Frame) guardExempt(g *guardInfo) string {
	e := f.e
	ent := f.entry
	if e.topEntry != nil {
		ent = e.topEntry
	}
	a0 := e.comp(ent, "alloc", arrSort(sBool))
	// allocated by this call (not yet shared), or in the ghost set of thread-private objects (`unshared` parameters,
	// and whatever a precondition `exempt(x)` lets the function assume)
	return or(not(sel(a0, g.idx)), sel(e.unshComp(), g.idx))
}

// guardAccess emits the obligation for one access.
func (f *Frame) guardAccess(g *guardInfo, write bool, what string, pos token.Pos) {
	if g == nil || f.dry || !f.e.guardsOn {
		return
	}
	e := f.e
	var held string
	label := "read." + g.key
	desc := "read of " + g.key + what + " with its lock held (read or write)"
	if write {
		label = "write." + g.key
		desc = "write of " + g.key + what + " with its write lock held"
	}
	if g.kind == "atomic" {
		held = "false"
		desc = "plain access to " + g.key + what + ", which is updated with sync/atomic elsewhere"
	} else {
		w := e.comp(f.st, g.lockW, arrSort(sBool))
		r := e.comp(f.st, g.lockR, arrSort(sInt))
		if write {
			held = sel(w, g.idx)
		} else {
			held = or(sel(w, g.idx), app(">", sel(r, g.idx), "0"))
		}
	}
	e.oblige("guard", label, f.pc, or(held, f.guardExempt(g)), desc, pos, []string{guardProp})
}

// accessesGuarded: fn syntactically touches a field with a `guarded` declaration.
func accessesGuarded(st *SortTable, guards map[string]string, fn *ssa.Function) bool {
	for _, b := range fn.Blocks {
		for _, ins := range b.Instrs {
			fa, ok := ins.(*ssa.FieldAddr)
			if !ok {
				continue
			}
			sT, s := derefStruct(fa.X.Type())
			if s == nil {
				continue
			}
			if _, ok := guards[st.typeStr(sT)+"."+s.Field(fa.Field).Name()]; ok {
				return true
			}
		}
	}
	return false
}

var _ = types.Typ

// unshComp: the ghost set of thread-private objects (constant during a call).
func (e *Encoder) unshComp() string {
	if !e.unshDecl {
		e.unshDecl = true
		saved := e.curBlk
		e.curBlk = nil
		e.emit("(declare-const UNSH (Array Int Bool))")
		e.curBlk = saved
	}
	return "UNSH"
}

// callsGuardedPre: fn calls a function whose contract has a precondition tagged for the lock-discipline property
// ("the caller holds the lock"): the call site has to be checked.
func callsGuardedPre(ct *Contracts, fn *ssa.Function) bool {
	for _, b := range fn.Blocks {
		for _, ins := range b.Instrs {
			c, ok := ins.(ssa.CallInstruction)
			if !ok || c.Common().IsInvoke() {
				continue
			}
			g, ok := c.Common().Value.(*ssa.Function)
			if !ok {
				continue
			}
			fc := ct.Funcs[qualName(g)]
			if fc == nil {
				continue
			}
			for _, cl := range fc.Requires {
				if hasProp(cl.Props, guardProp) {
					return true
				}
			}
		}
	}
	return false
}

// interfere (lock-discipline mode only): acquiring a lock that this goroutine did not already hold is the point
// where other goroutines' updates become visible: every field the lock guards gets an unconstrained value.  Facts
// established under an EARLIER critical section (a look-up that missed, a length that was read) therefore do not
// carry over - which is what makes a check-then-act split across two critical sections fail the precondition of
// the act (e.g. AppendLabelValue's "the key is not in the index").
func (f *Frame) interfere(lockLoc *Loc, heldW, heldR, idx string) {
	e := f.e
	if !strings.HasPrefix(lockLoc.Comp, "H.") {
		return
	}
	lc := strings.TrimPrefix(lockLoc.Comp, "H.") // "metrics.Metric.RWMutex"
	dot := strings.LastIndex(lc, ".")
	if dot < 0 {
		return
	}
	strct, lockField := lc[:dot], lc[dot+1:]
	already := or(heldW, heldR)
	for key, kind := range e.ct.Guards {
		if kind != lockField || !strings.HasPrefix(key, strct+".") || strings.Count(key, ".") != strings.Count(strct, ".")+1 {
			continue
		}
		comp := "H." + key
		srt, ok := e.compSort[comp]
		if !ok {
			srt = e.fieldCompSort(comp, f.fn.Pkg.Pkg)
			if srt == "" {
				continue
			}
		}
		cur := e.comp(f.st, comp, srt)
		fresh := e.declare("interfere."+key, arrayElemSort(srt))
		e.setComp(f.st, comp, store(cur, idx, ite(already, sel(cur, idx), fresh)))
	}
}
