#!/bin/sh
# usage: import_seed.sh <round> <prop> <scratch-dir> : files a sub-agent's out/ directory under seeded_incoming/<round>_<prop>
#        and removes the scratch worktree.
r=$1; p=$2; d=$3
mkdir -p /verif/seeded_incoming/${r}_$p
cp $d/out/change[12].diff $d/out/demo[12]_test.go $d/out/notes[12].md /verif/seeded_incoming/${r}_$p/ 2>/dev/null
ls /verif/seeded_incoming/${r}_$p
git -C /repo worktree remove --force $d
