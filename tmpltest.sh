#!/bin/sh
# usage: tmpltest.sh <seed-id|-> <template-file> : runs a replay template's bounded search on a scratch worktree of
# /repo with the seeded change applied ("-" = unchanged tree); prints the go test tail.
export GOFLAGS=-mod=mod GOPROXY=off GOSUMDB=off GOTOOLCHAIN=local
wt=$(mktemp -d /tmp/tmplwt.XXXX); rmdir $wt
git -C /repo worktree add -q --detach $wt HEAD || exit 2
[ "$1" != "-" ] && { git -C $wt apply /verif/seeded/$1/patch.diff || { git -C /repo worktree remove --force $wt; exit 2; }; }
pkg=$(sed -n 's|^// pkg: ||p' /verif/replay_templates/$2 | head -1)
sc=$(mktemp -d /tmp/tmplsc.XXXX)
sed 's|/\*INPUTS\*/|`{}`|' /verif/replay_templates/$2 > $sc/t_test.go
echo "{\"Replace\": {\"$wt/$pkg/zz_govc_t_test.go\": \"$sc/t_test.go\"}}" > $sc/ov.json
(cd $wt && go test -overlay $sc/ov.json -vet=off -timeout 300s -run TestGovcReplay ./$pkg/ 2>&1 | tail -6)
git -C /repo worktree remove --force $wt; rm -rf $sc $wt
