#!/usr/bin/env python3
"""Writes the seeded-change table (DESIGN.md §13.5) from seeded/*/meta.json, between the SEEDTABLE markers.

Columns: which registered check reports a violation, the first CONTRACT obligation that fails (the deductive part) and
the first class a bounded stand-in reports (if any); "missed" when no check of the properties scanned reports anything.
"""
import json, os, re
V = "/verif"
rows = []
n_contract = n_bounded_only = n_missed = 0
for sid in sorted(os.listdir(V + "/seeded")):
    mp = f"{V}/seeded/{sid}/meta.json"
    if not os.path.exists(mp):
        continue
    m = json.load(open(mp))
    what = re.sub(r"^(Seed\s*\d+\s*[/ ]*)?(C\d+\s*[/ ]*)?([Ss]eeded\s+)?[Cc]hange\s*\d*\s*(\([^)]*\))?\s*[:—–-]*\s*", "", m.get("what", "")).strip()
    what = what.replace("|", "/")[:100]
    caught = m.get("caught_by", [])
    det = m.get("detection", {})
    cob, bnd = "", ""
    for p in caught:
        d = det.get(p, {})
        obs = d.get("obligations") or []
        if obs and not cob:
            ob = obs[0]
            ob = ob.split(").")[-1] if ")." in ob else ob
            cob = f"{p}: `{ob}`"
        bs = d.get("bounded_standins") or []
        if bs and not bnd:
            bnd = f"{p}: `{bs[0].replace('bounded.', '')}`"
    if caught:
        if cob:
            n_contract += 1
        else:
            n_bounded_only += 1
        res = f"**{', '.join(caught)}**"
    else:
        n_missed += 1
        res = "missed" + (f" ({m['detection_note']})" if m.get("detection_note") else "")
    missed_by = m.get("missed_by", [])
    if caught and missed_by:
        res += f" (not by {', '.join(missed_by)})"
    conf = "yes" if m.get("confirmed") else "partly"
    rows.append(f"| {sid} | {what} | {conf} | {res} | {cob or '-'} | {bnd or '-'} |")
head = (f"{len(rows)} changes: {n_contract} fail at least one contract obligation, {n_bounded_only} are reported only by a bounded "
        f"stand-in, {n_missed} are missed.\n\n")
table = head + "| id | change | confirmed | reported by | first contract obligation failed | first bounded class |\n|---|---|---|---|---|---|\n" + "\n".join(rows)
p = V + "/DESIGN.md"
s = open(p).read()
a, b = "<!-- SEEDTABLE -->", "<!-- /SEEDTABLE -->"
if a in s:
    s = s[:s.index(a) + len(a)] + "\n" + table + "\n" + s[s.index(b):]
    open(p, "w").write(s)
print(len(rows), "rows;", n_contract, "contract,", n_bounded_only, "bounded only,", n_missed, "missed")
