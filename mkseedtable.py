#!/usr/bin/env python3
"""Writes the seeded-change table (DESIGN.md §13.5) from seeded/*/meta.json, between the SEEDTABLE markers."""
import json, os, re
V = "/verif"
rows = []
for sid in sorted(os.listdir(V + "/seeded")):
    mp = f"{V}/seeded/{sid}/meta.json"
    if not os.path.exists(mp):
        continue
    m = json.load(open(mp))
    what = re.sub(r"^(C\d+\s+)?[Cc]hange\s*\d*\s*[:—–-]*\s*", "", m.get("what", "")).strip()
    what = what.replace("|", "/")[:110]
    caught = m.get("caught_by", [])
    det = m.get("detection", {})
    if caught:
        p = caught[0]
        ob = det.get(p, {}).get("obligations", [""])[0]
        ob = ob.split(").")[-1] if ")." in ob else ob.split(".", 1)[-1]
        res = f"**{', '.join(caught)}**: `{ob}`" + (" (failing input found)" if det.get(p, {}).get("failing_input_found") else "")
    else:
        res = "missed" + (f" ({m['detection_note']})" if m.get("detection_note") else "")
    conf = "yes" if m.get("confirmed") else "partly (see meta.json)"
    rows.append(f"| {sid} | {what} | {conf} | {res} |")
table = "| id | change | confirmed | caught by (first failed obligation) |\n|---|---|---|---|\n" + "\n".join(rows)
p = V + "/DESIGN.md"
s = open(p).read()
a, b = "<!-- SEEDTABLE -->", "<!-- /SEEDTABLE -->"
if a in s:
    s = s[:s.index(a) + len(a)] + "\n" + table + "\n" + s[s.index(b):]
    open(p, "w").write(s)
print(len(rows), "rows")
