#!/usr/bin/env python3
"""Runs the registered checks against every seeded change (scratch worktree of /repo, /repo itself untouched) and
records in seeded/<id>/meta.json which check reports a violation (caught_by, with the first obligations named) or that
none does (missed_by).  Usage: seedscan.py [id ...]"""
import json, os, re, subprocess, sys, tempfile, shutil

V = "/verif"
EXTRA = {"C08-2": ["C11"], "C22-1": ["C14", "C06"], "C13-1": ["C12"], "C13-2": ["C12"],
         "C06-r5-1": ["C26"], "C06-r5-2": ["C13"], "C10-r5-2": ["C09"], "C13-r5-2": ["C22", "C09"], "C14-r5-1": ["C22"]}

def sh(cmd, cwd="/", env=None, timeout=3000):
    p = subprocess.run(cmd, shell=True, cwd=cwd, env=env, stdout=subprocess.PIPE, stderr=subprocess.STDOUT, text=True, timeout=timeout)
    return p.returncode, p.stdout

def main():
    want = set(sys.argv[1:])
    claimed = {c["property_id"] for c in json.load(open(V + "/MANIFEST.json"))["checks"]}
    for sid in sorted(os.listdir(V + "/seeded")):
        mp = f"{V}/seeded/{sid}/meta.json"
        if not os.path.exists(mp) or (want and sid not in want):
            continue
        meta = json.load(open(mp))
        props = [p for p in [meta["property"]] + EXTRA.get(sid, []) if p in claimed]
        wt = tempfile.mkdtemp(prefix="scanwt.", dir="/tmp"); os.rmdir(wt)
        sc = tempfile.mkdtemp(prefix="scansc.", dir="/tmp")
        sh(f"git -C /repo worktree add -q --detach {wt} HEAD")
        rc, out = sh(f"git -C {wt} apply {V}/seeded/{sid}/patch.diff")
        caught, missed, detail = [], [], {}
        if rc:
            meta["detection_note"] = "patch does not apply to the current tree"
        else:
            for p in props:
                env = dict(os.environ, VERIF_REPO=wt, VERIF_SCRATCH=sc)
                rc, out = sh(f"./check {p} --no-evidence --timeout 6", cwd=V, env=env)
                viol = re.findall(r"^VIOLATION property=\S+ replay=\S+ obligation=(\S+)(.*)$", out, re.M)
                if viol:
                    caught.append(p)
                    contract = [v[0] for v in viol if not v[0].startswith("bounded.")]
                    bounded = [v[0] for v in viol if v[0].startswith("bounded.")]
                    detail[p] = {"obligations": contract[:4], "bounded_standins": bounded[:3], "violations": len(viol),
                                 "contract_obligations_failed": len(contract), "bounded_classes_failed": len(bounded),
                                 "failing_input_found": any("no-failing-input-found" not in v[1] for v in viol)}
                else:
                    missed.append(p)
        meta["caught_by"], meta["missed_by"], meta["detection"] = caught, missed, detail
        json.dump(meta, open(mp, "w"), indent=1)
        sh(f"git -C /repo worktree remove --force {wt}"); shutil.rmtree(sc, ignore_errors=True)
        print(f"{sid}: caught_by={caught} missed_by={missed} " + "; ".join(f"{p}: {(d['obligations'] or ['-'])[0]} | {(d['bounded_standins'] or ['-'])[0]}" for p, d in detail.items()))
        sys.stdout.flush()

main()
